package playback

// Verification harness for C31 (segment operations identify segments by instant). Injected by /verif
// through -overlay. For every group (server zone, record path format) it writes one small fMP4 segment per
// instant and records the start instants the real playback server lists. TLC decides
// (spec/record/TraceSegDelete.tla).

import (
	"encoding/json"
	"io"
	"net"
	"net/http"
	"net/url"
	"os"
	"path/filepath"
	"testing"
	"time"

	"github.com/bluenviron/mediacommon/v2/pkg/formats/fmp4"
	"github.com/bluenviron/mediacommon/v2/pkg/formats/fmp4/seekablebuffer"
	mcodecs "github.com/bluenviron/mediacommon/v2/pkg/formats/mp4/codecs"

	"github.com/bluenviron/mediamtx/internal/auth"
	"github.com/bluenviron/mediamtx/internal/conf"
	"github.com/bluenviron/mediamtx/internal/logger"
	"github.com/bluenviron/mediamtx/internal/test"
	"github.com/bluenviron/mediamtx/internal/verifrt"
)

type vf31File struct {
	Idx int    `json:"idx"`
	Rel string `json:"rel"`
}

type vf31Case struct {
	Kind       string     `json:"kind"`
	ID         int        `json:"id"`
	Zone       string     `json:"zone"`
	G          int        `json:"g"`
	RecordPath string     `json:"recordPath"`
	Path       string     `json:"path"`
	Files      []vf31File `json:"files"`
}

type vf31Inst struct {
	D   int64  `json:"d"` // days since 1970-01-01 (UTC) ...
	S   int64  `json:"s"` // ... and second of that day (Unix seconds do not fit the model's integers after 2038)
	US  int64  `json:"us"`
	Off int    `json:"off"`
	Raw string `json:"raw"`
}

type vf31Log struct{}

func (vf31Log) Log(logger.Level, string, ...any) {}

type vf31Auth struct{}

func (vf31Auth) Authenticate(*auth.Request) (string, *auth.Error) { return "", nil }
func (vf31Auth) RefreshJWTJWKS()                                  {}

// one H264 track, one second of media
func vf31Segment(t testing.TB) []byte {
	init := fmp4.Init{
		Tracks: []*fmp4.InitTrack{{
			ID:        1,
			TimeScale: 90000,
			Codec:     &mcodecs.H264{SPS: test.FormatH264.SPS, PPS: test.FormatH264.PPS},
		}},
	}
	var b1 seekablebuffer.Buffer
	if err := init.Marshal(&b1); err != nil {
		t.Fatal(err)
	}
	parts := fmp4.Parts{{
		Tracks: []*fmp4.PartTrack{{
			ID:       1,
			BaseTime: 0,
			Samples:  []*fmp4.Sample{{Duration: 90000, Payload: []byte{1, 2}}},
		}},
	}}
	var b2 seekablebuffer.Buffer
	if err := parts.Marshal(&b2); err != nil {
		t.Fatal(err)
	}
	return append(b1.Bytes(), b2.Bytes()...)
}

func TestVerif_C31_Playback(t *testing.T) {
	out := verifrt.NewOutFile(t, verifrt.ParamS("OUTPB", ""))
	defer out.Close()

	saved := time.Local
	defer func() { time.Local = saved }()

	root := t.TempDir()
	seg := vf31Segment(t)
	tr := &http.Transport{}
	defer tr.CloseIdleConnections()
	hc := &http.Client{Transport: tr}

	verifrt.ForEachCase(t, func(raw []byte) {
		var c vf31Case
		verifrt.Decode(t, raw, &c)
		if c.Kind != "group" {
			return
		}
		loc, err := time.LoadLocation(c.Zone)
		if err != nil {
			t.Fatal(err)
		}
		time.Local = loc // the server's zone

		base := filepath.Join(root, "g"+filepath.Base(c.Zone)+string(rune('0'+c.G)), "BASE")
		for _, f := range c.Files {
			p := filepath.Join(base, f.Rel)
			if err = os.MkdirAll(filepath.Dir(p), 0o755); err != nil {
				t.Fatal(err)
			}
			if err = os.WriteFile(p, seg, 0o644); err != nil {
				t.Fatal(err)
			}
		}
		yml := "playback: yes\npathDefaults:\n  recordPath: " + filepath.Join(base, c.RecordPath) + "\npaths:\n  all_others:\n"
		fi := filepath.Join(root, "conf.yml")
		if err = os.WriteFile(fi, []byte(yml), 0o644); err != nil {
			t.Fatal(err)
		}
		cnf, _, err := conf.Load(fi, nil, nil)
		if err != nil {
			t.Fatalf("configuration rejected: %v", err)
		}

		l, err := net.Listen("tcp", "127.0.0.1:0")
		if err != nil {
			t.Fatal(err)
		}
		addr := l.Addr().String()
		l.Close()
		s := &Server{
			Address:      addr,
			ReadTimeout:  conf.Duration(10 * time.Second),
			WriteTimeout: conf.Duration(10 * time.Second),
			PathConfs:    cnf.Paths,
			AuthManager:  vf31Auth{},
			Parent:       vf31Log{},
		}
		if err = s.Initialize(); err != nil {
			t.Fatal(err)
		}
		defer s.Close()

		v := url.Values{}
		v.Set("path", c.Path)
		resp, err := hc.Get("http://" + addr + "/list?" + v.Encode())
		if err != nil {
			t.Fatal(err)
		}
		body, _ := io.ReadAll(resp.Body)
		resp.Body.Close()
		if resp.StatusCode != http.StatusOK {
			t.Fatalf("playback /list returned %d: %s", resp.StatusCode, body)
		}
		var entries []struct {
			Start string `json:"start"`
		}
		if err = json.Unmarshal(body, &entries); err != nil {
			t.Fatal(err)
		}
		starts := []vf31Inst{}
		for _, e := range entries {
			tm, err2 := time.Parse(time.RFC3339Nano, e.Start)
			if err2 != nil {
				t.Fatalf("listed start %q is not RFC 3339: %v", e.Start, err2)
			}
			_, off := tm.Zone()
			starts = append(starts, vf31Inst{D: tm.Unix() / 86400, S: tm.Unix() % 86400, US: int64(tm.Nanosecond() / 1000), Off: off / 60, Raw: e.Start})
		}
		out.Emit(map[string]any{"zone": c.Zone, "g": c.G, "starts": starts})
	})
}
