package playback

// Verification harness for C24 (timestamp scaling is exact). Injected by /verif through -overlay.
// Records what this package's copies of the helper return; TLC / Apalache decide.

import (
	"testing"
	"time"

	"github.com/bluenviron/mediamtx/internal/verifc24"
)

func TestVerif_C24_Scale(t *testing.T) {
	verifc24.Run(t, "playback", []verifc24.Fn{
		{Name: "playback.durationGoToMp4", FixD: verifc24.Giga, MaxRate: 1<<32 - 1, Call: func(v, m, _ int64) int64 {
			return durationGoToMp4(time.Duration(v), uint32(m))
		}},
		{Name: "playback.durationMp4ToGo", FixM: verifc24.Giga, MaxRate: 1<<32 - 1, Call: func(v, _, d int64) int64 {
			return int64(durationMp4ToGo(v, uint32(d)))
		}},
	})
}
