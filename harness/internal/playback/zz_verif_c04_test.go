package playback

// Verification harness for C04 (administrative endpoints enforce their permission): the
// playback listener. Injected by /verif through -overlay. One real Server per instance of the
// case file, each with the REAL auth.Manager configured with the instance's internal users;
// the paths cam1 and other have one recorded segment each. State = the recording tree
// (compared before/after). The test records; TLC decides.

import (
	"os"
	"path/filepath"
	"sort"
	"strings"
	"sync"
	"testing"
	"time"

	"github.com/gin-gonic/gin"

	"github.com/bluenviron/mediamtx/internal/conf"
	"github.com/bluenviron/mediamtx/internal/verifc04"
	"github.com/bluenviron/mediamtx/internal/verifrt"
)

func vf04Tree(t testing.TB, dir string) string {
	var l []string
	err := filepath.Walk(dir, func(p string, fi os.FileInfo, err error) error {
		if err != nil {
			return err
		}
		l = append(l, p+" "+fi.Mode().String()+" "+strings.Repeat("#", int(fi.Size()%7)))
		return nil
	})
	if err != nil {
		t.Fatal(err)
	}
	sort.Strings(l)
	return strings.Join(l, "\n")
}

func TestVerif_C04_Playback(t *testing.T) {
	out := verifrt.NewOutFile(t, verifc04.OutPath("playback"))
	defer out.Close()
	in := verifc04.Load(t, "playback")

	dir := t.TempDir()
	verifc04.WriteSegment(t, dir, "cam1")
	verifc04.WriteSegment(t, dir, "other")
	before := vf04Tree(t, dir)
	pathConfs := map[string]*conf.Path{}
	for _, n := range []string{"cam1", "other"} {
		pathConfs[n] = &conf.Path{Name: n, RecordPath: verifc04.RecordPath(dir), RecordFormat: conf.RecordFormatFMP4}
	}

	bases := make([]string, len(in.Instances))
	var first *Server
	for i, ins := range in.Instances {
		var s *Server
		addr := verifc04.Listen(t, func(addr string) error {
			s = &Server{
				Address:        addr,
				TrustedProxies: verifc04.TrustedProxies(t, ins.Trusted),
				ReadTimeout:    conf.Duration(30 * time.Second),
				WriteTimeout:   conf.Duration(30 * time.Second),
				PathConfs:      pathConfs,
				AuthManager:    verifc04.NewManager(t, ins.Users),
				Parent:         verifc04.NilLogger{},
			}
			return s.Initialize()
		})
		defer s.Close()
		bases[i] = "http://" + addr
		if first == nil {
			first = s
		}
	}

	routes := []map[string]string{}
	for _, r := range first.httpServer.Handler.(*gin.Engine).Routes() {
		routes = append(routes, map[string]string{"m": r.Method, "p": r.Path})
	}
	out.Emit(map[string]any{"routes": routes})

	eng := &verifc04.Engine{
		T:        t,
		Base:     func(inst int) string { return bases[inst-1] },
		SoloLock: func(int) *sync.Mutex { return &sync.Mutex{} },
		SoloRead: func(int) int { return 0 },
	}
	obs := eng.Run(in.Cases)
	// the listener has no state-changing route: any change of the recording tree is reported
	// for every request of the run
	changed := vf04Tree(t, dir) != before
	for _, o := range obs {
		o.Mut = changed
		out.Emit(o)
	}
}
