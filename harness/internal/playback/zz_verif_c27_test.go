package playback

// Verification harness for C27 (crash points while recording), shared with C28 and C29.
// Injected by /verif through -overlay. The tests RECORD what the real recorder and the real
// playback code do; verdicts are taken by TLC (spec/record/TraceRecFile.tla, TracePlayback.tla).
//
// Shared pieces (prefix vf27): synthetic streams recorded with the real recorder.Recorder, a
// top-level box scanner, and a "child mode" of the test binary that runs the real playback
// server (a panic inside a handler exits that process by design: handlerExitOnPanic).

import (
	"bufio"
	"bytes"
	"encoding/binary"
	"encoding/json"
	"fmt"
	"io"
	"net"
	"net/http"
	"net/url"
	"os"
	"os/exec"
	"os/signal"
	"path/filepath"
	"sort"
	"strconv"
	"strings"
	"sync"
	"syscall"
	"testing"
	"time"

	"github.com/bluenviron/gortsplib/v5/pkg/description"
	rtspformat "github.com/bluenviron/gortsplib/v5/pkg/format"
	"github.com/bluenviron/mediacommon/v2/pkg/codecs/mpeg4audio"
	"github.com/bluenviron/mediacommon/v2/pkg/formats/fmp4"

	"github.com/bluenviron/mediamtx/internal/conf"
	"github.com/bluenviron/mediamtx/internal/logger"
	"github.com/bluenviron/mediamtx/internal/recorder"
	"github.com/bluenviron/mediamtx/internal/recordstore"
	"github.com/bluenviron/mediamtx/internal/stream"
	"github.com/bluenviron/mediamtx/internal/test"
	"github.com/bluenviron/mediamtx/internal/unit"
	"github.com/bluenviron/mediamtx/internal/verifrt"
)

// ---------------------------------------------------------------------------- synthetic streams

// vf27Unit is one unit handed to the stream. Times are milliseconds; NTP is relative to vf27Base.
type vf27Unit struct {
	Track int   `json:"tr"`  // 1 = H264 video, 2 = MPEG-4 audio (ids as in the recorded file when both exist)
	T     int64 `json:"t"`   // PTS = DTS, ms
	NTP   int64 `json:"ntp"` // absolute time, ms after vf27Base
	Sync  bool  `json:"sync"`
	ID    int   `json:"id"` // written into the payload, read back from what playback serves
}

// vf27Run is one run of the recorder (one recorder instance = one stream id).
type vf27Run struct {
	Video  bool       `json:"video"`
	Audio  bool       `json:"audio"`
	PartMs int        `json:"partMs"`
	SegMs  int        `json:"segMs"`
	Units  []vf27Unit `json:"units"`

	Ends map[int]int64 `json:"-"` // optional: instant at which each track's last sample ends

	Layout string `json:"-"` // optional: file-name part of the record path (default vf27LayoutChrono)

	OnError func(msg string) `json:"-"` // optional: see vf27Logger.onErr
	Errors  *[]string        `json:"-"` // optional: receives the Error-level log lines of the run
}

// file-name layouts of the record path (after "%path/")
const (
	vf27LayoutChrono    = "%Y-%m-%d_%H-%M-%S-%f"
	vf27LayoutDayFirst  = "%d-%m-%Y_%H-%M-%S-%f"
	vf27LayoutTimeFirst = "%H-%M-%S-%f_%Y-%m-%d"
)

func vf27LayoutOr(l string) string {
	if l == "" {
		return vf27LayoutChrono
	}
	return l
}

var vf27Base = time.Date(2031, 3, 4, 10, 0, 0, 0, time.Local)

func vf27AudioFormat() *rtspformat.MPEG4Audio {
	return &rtspformat.MPEG4Audio{
		PayloadTyp: 96,
		Config: &mpeg4audio.AudioSpecificConfig{
			Type:          2,
			SampleRate:    48000,
			ChannelCount:  2, //nolint:staticcheck
			ChannelConfig: 2,
		},
		SizeLength:       13,
		IndexLength:      3,
		IndexDeltaLength: 3,
	}
}

type vf27Logger struct {
	mu    sync.Mutex
	lines []string
	errs  []string
	drift chan struct{}
	once  sync.Once
	onErr func(msg string) // called, in the recorder instance's goroutine, on its first error, BEFORE it closes its segment
}

// The recorder instance logs the error that ends it (the end-of-run "detected drift" or a write
// error) at Error level right before it removes its reader and closes the format.
func (l *vf27Logger) Log(level logger.Level, format string, args ...any) {
	s := fmt.Sprintf(format, args...)
	l.mu.Lock()
	l.lines = append(l.lines, s)
	if level == logger.Error {
		l.errs = append(l.errs, s)
	}
	l.mu.Unlock()
	if level == logger.Error || strings.Contains(s, "detected drift") {
		l.once.Do(func() {
			if l.onErr != nil {
				l.onErr(s)
			}
			close(l.drift)
		})
	}
}

// vf27Record feeds one run to a real recorder.Recorder writing under dir/<pathName>/ and returns
// when every unit has been consumed and the recorder has been closed.
//
// The recorder consumes units asynchronously and drops whatever is queued when it is closed, so
// the run is ended through the recorder itself: after the run's units each track gets one
// successor unit (a sample is written when its successor arrives), and the last track then gets
// a unit whose absolute time is one hour off followed by one more unit; processing the former
// makes the recorder report "detected drift" BEFORE it writes anything of it, which is the signal
// that everything before has been consumed. The recorder instance then closes its segment exactly
// as it does on a normal stop. The successor units carry the ids 9001.. and are never written.
func vf27Record(t testing.TB, dir string, pathName string, run vf27Run) []string {
	files, _ := vf27RecordEx(t, dir, pathName, run)
	return files
}

// vf27RecordEx also returns what the recorder reported through OnSegmentComplete (path -> ms).
func vf27RecordEx(t testing.TB, dir string, pathName string, run vf27Run) ([]string, map[string]int64) {
	var medias []*description.Media
	var vMedia, aMedia *description.Media
	if run.Video {
		vMedia = &description.Media{
			Type: description.MediaTypeVideo,
			Formats: []rtspformat.Format{&rtspformat.H264{
				PayloadTyp:        96,
				PacketizationMode: 1,
				SPS:               test.FormatH264.SPS,
				PPS:               test.FormatH264.PPS,
			}},
		}
		medias = append(medias, vMedia)
	}
	if run.Audio {
		aMedia = &description.Media{
			Type:    description.MediaTypeAudio,
			Formats: []rtspformat.Format{vf27AudioFormat()},
		}
		medias = append(medias, aMedia)
	}
	desc := &description.Session{Medias: medias}

	strm := &stream.Stream{
		OrigDesc:          desc,
		WriteQueueSize:    8192,
		RTPMaxPayloadSize: 1450,
		Parent:            test.NilLogger,
	}
	if err := strm.Initialize(); err != nil {
		t.Fatalf("stream: %v", err)
	}
	defer strm.Close()
	sub := &stream.SubStream{Stream: strm, UseRTPPackets: false}
	if err := sub.Initialize(); err != nil {
		t.Fatalf("substream: %v", err)
	}

	lg := &vf27Logger{drift: make(chan struct{}), onErr: run.OnError}
	var mu sync.Mutex
	var created []string
	completed := map[string]int64{}
	rec := &recorder.Recorder{
		PathFormat:      filepath.Join(dir, "%path/"+vf27LayoutOr(run.Layout)),
		Format:          conf.RecordFormatFMP4,
		PartDuration:    time.Duration(run.PartMs) * time.Millisecond,
		MaxPartSize:     50 * 1024 * 1024,
		SegmentDuration: time.Duration(run.SegMs) * time.Millisecond,
		PathName:        pathName,
		Stream:          strm,
		OnSegmentCreate: func(p string) {
			mu.Lock()
			created = append(created, p)
			mu.Unlock()
		},
		OnSegmentComplete: func(p string, d time.Duration) {
			mu.Lock()
			completed[p] = int64(d / time.Microsecond)
			mu.Unlock()
		},
		Parent: lg,
	}
	rec.Initialize()

	push := func(u vf27Unit) {
		ntp := vf27Base.Add(time.Duration(u.NTP) * time.Millisecond)
		if run.Video && u.Track == 1 {
			var pl unit.PayloadH264
			if u.Sync {
				pl = unit.PayloadH264{test.FormatH264.SPS, test.FormatH264.PPS, {0x65, byte(u.ID >> 8), byte(u.ID)}}
			} else {
				pl = unit.PayloadH264{{0x41, byte(u.ID >> 8), byte(u.ID)}}
			}
			sub.WriteUnit(vMedia, vMedia.Formats[0], &unit.Unit{PTS: u.T * 90, NTP: ntp, Payload: pl})
		} else {
			sub.WriteUnit(aMedia, aMedia.Formats[0], &unit.Unit{PTS: u.T * 48, NTP: ntp,
				Payload: unit.PayloadMPEG4Audio{{0xA0, byte(u.ID >> 8), byte(u.ID), 0x11}}})
		}
	}

	if len(run.Units) > 4000 {
		t.Fatalf("run too long for the stream queue")
	}
	last := map[int]vf27Unit{}
	var order []int
	for _, u := range run.Units {
		if _, ok := last[u.Track]; !ok {
			order = append(order, u.Track)
		}
		last[u.Track] = u
	}
	sort.Ints(order)
	for _, u := range run.Units {
		push(u)
	}
	// successors: the end time of each track is the run's declared end (field T of a unit with ID<0 is
	// not used): every track's last sample lasts until the next multiple given by the caller via End().
	ends := vf27Ends(run)
	for i, tr := range order {
		e := ends[tr]
		l := last[tr]
		ntpEnd := l.NTP + (e - l.T)
		if i < len(order)-1 {
			push(vf27Unit{Track: tr, T: e, NTP: ntpEnd, Sync: false, ID: 9001 + i})
		} else {
			push(vf27Unit{Track: tr, T: e, NTP: ntpEnd + 3600_000, Sync: false, ID: 9001 + i})
			push(vf27Unit{Track: tr, T: e, NTP: ntpEnd + 3600_000, Sync: false, ID: 9100})
		}
	}

	select {
	case <-lg.drift:
	case <-time.After(20 * time.Second):
		lg.mu.Lock()
		defer lg.mu.Unlock()
		t.Fatalf("recorder did not consume the run within 20 s; log: %v", lg.lines)
	}
	rec.Close()
	if run.Errors != nil {
		lg.mu.Lock()
		*run.Errors = append([]string{}, lg.errs...)
		lg.mu.Unlock()
	}
	mu.Lock()
	defer mu.Unlock()
	return append([]string{}, created...), completed
}

// vf27Ends gives, per track, the instant at which the track's last sample ends: the last sample of
// a track lasts as long as the one before it (or 20 ms when the track has one sample).
func vf27Ends(run vf27Run) map[int]int64 {
	if run.Ends != nil {
		return run.Ends
	}
	prev := map[int]int64{}
	lastT := map[int]int64{}
	seen := map[int]int{}
	for _, u := range run.Units {
		if seen[u.Track] > 0 {
			prev[u.Track] = lastT[u.Track]
		}
		lastT[u.Track] = u.T
		seen[u.Track]++
	}
	out := map[int]int64{}
	for tr, n := range seen {
		d := int64(20)
		if n > 1 && lastT[tr] > prev[tr] {
			d = lastT[tr] - prev[tr]
		}
		out[tr] = lastT[tr] + d
	}
	return out
}

// ---------------------------------------------------------------------------- box scanner

type vf27Box struct {
	Type string `json:"type"`
	Off  int    `json:"off"`
	Size int    `json:"size"`
}

// vf27TopBoxes lists the top-level boxes of a well-formed file (the recorder's own output).
func vf27TopBoxes(b []byte) ([]vf27Box, error) {
	var out []vf27Box
	off := 0
	for off < len(b) {
		if off+8 > len(b) {
			return out, fmt.Errorf("short box header at %d", off)
		}
		sz := int(binary.BigEndian.Uint32(b[off:]))
		if sz < 8 || off+sz > len(b) {
			return out, fmt.Errorf("bad box size %d at %d", sz, off)
		}
		out = append(out, vf27Box{Type: string(b[off+4 : off+8]), Off: off, Size: sz})
		off += sz
	}
	return out, nil
}

// vf27FindChild finds a child box by type inside b[start:end] (children start at start).
func vf27FindChild(b []byte, start, end int, typ string) (int, int, bool) {
	off := start
	for off+8 <= end {
		sz := int(binary.BigEndian.Uint32(b[off:]))
		if sz < 8 || off+sz > end {
			return 0, 0, false
		}
		if string(b[off+4:off+8]) == typ {
			return off, sz, true
		}
		off += sz
	}
	return 0, 0, false
}

// ---------------------------------------------------------------------------- served samples

type vf27Sample struct {
	Track int   `json:"tr"`
	ID    int   `json:"id"`
	DTS   int64 `json:"dts"` // in the track's time scale
	Dur   int64 `json:"dur"`
	Sync  bool  `json:"sync"`
	TS    int64 `json:"ts"` // time scale
}

func vf27PayloadID(codecVideo bool, pl []byte) int {
	if codecVideo {
		// AVCC: the last slice NALU carries the id
		off := 0
		id := -1
		for off+4 <= len(pl) {
			n := int(binary.BigEndian.Uint32(pl[off:]))
			off += 4
			if n < 0 || off+n > len(pl) {
				return -1
			}
			if n >= 3 && (pl[off]&0x1f == 5 || pl[off]&0x1f == 1) {
				id = int(pl[off+1])<<8 | int(pl[off+2])
			}
			off += n
		}
		return id
	}
	if len(pl) >= 3 && pl[0] == 0xA0 {
		return int(pl[1])<<8 | int(pl[2])
	}
	return -1
}

// vf27ParseFMP4 parses an fMP4 byte stream (init + parts) into samples in file order. The init and
// the parts are parsed with mediacommon (trusted); when mediacommon rejects the parts (playback may
// serve samples of a half-written part, e.g. of size zero) a plain trun walker is used instead and
// how is set to "walker". ok=false: not an fMP4 at all.
func vf27ParseFMP4(b []byte) (samples []vf27Sample, how string, ok bool) {
	defer func() {
		if r := recover(); r != nil {
			samples, how, ok = nil, "panic", false
		}
	}()
	var init fmp4.Init
	if err := init.Unmarshal(bytes.NewReader(b)); err != nil {
		return nil, "noinit", false
	}
	video := map[int]bool{}
	ts := map[int]int64{}
	for _, tr := range init.Tracks {
		video[tr.ID] = tr.Codec.IsVideo()
		ts[tr.ID] = int64(tr.TimeScale)
	}
	boxes, err := vf27TopBoxes(b)
	if err == nil {
		first := -1
		for _, bx := range boxes {
			if bx.Type == "moof" {
				first = bx.Off
				break
			}
		}
		if first < 0 {
			return []vf27Sample{}, "mediacommon", true
		}
		var parts fmp4.Parts
		if err = parts.Unmarshal(b[first:]); err == nil {
			samples = []vf27Sample{}
			for _, p := range parts {
				for _, tr := range p.Tracks {
					dts := int64(tr.BaseTime)
					for _, sm := range tr.Samples {
						samples = append(samples, vf27Sample{Track: tr.ID, ID: vf27PayloadID(video[tr.ID], sm.Payload),
							DTS: dts, Dur: int64(sm.Duration), Sync: !sm.IsNonSyncSample, TS: ts[tr.ID]})
						dts += int64(sm.Duration)
					}
				}
			}
			return samples, "mediacommon", true
		}
	}
	return vf27WalkParts(b, video, ts), "walker", true
}

func vf27WalkParts(b []byte, video map[int]bool, ts map[int]int64) []vf27Sample {
	out := []vf27Sample{}
	off := 0
	for off+8 <= len(b) {
		sz := int(binary.BigEndian.Uint32(b[off:]))
		if sz < 8 || off+sz > len(b) {
			break
		}
		if string(b[off+4:off+8]) == "moof" {
			o := off + 8
			for o+8 <= off+sz {
				cs := int(binary.BigEndian.Uint32(b[o:]))
				if cs < 8 || o+cs > off+sz {
					break
				}
				if string(b[o+4:o+8]) == "traf" {
					out = append(out, vf27WalkTraf(b, off, o+8, o+cs, video, ts)...)
				}
				o += cs
			}
		}
		off += sz
	}
	return out
}

func vf27WalkTraf(b []byte, moof, start, end int, video map[int]bool, ts map[int]int64) []vf27Sample {
	var out []vf27Sample
	track := -1
	var base int64
	o := start
	for o+8 <= end {
		cs := int(binary.BigEndian.Uint32(b[o:]))
		if cs < 8 || o+cs > end {
			break
		}
		pl := b[o+8 : o+cs]
		switch string(b[o+4 : o+8]) {
		case "tfhd":
			if len(pl) >= 8 {
				track = int(binary.BigEndian.Uint32(pl[4:]))
			}
		case "tfdt":
			if len(pl) >= 12 && pl[0] == 1 {
				base = int64(binary.BigEndian.Uint64(pl[4:]))
			} else if len(pl) >= 8 {
				base = int64(binary.BigEndian.Uint32(pl[4:]))
			}
		case "trun":
			if len(pl) < 8 {
				break
			}
			flags := int(pl[1])<<16 | int(pl[2])<<8 | int(pl[3])
			count := int(binary.BigEndian.Uint32(pl[4:]))
			p := 8
			dataOff := 0
			if flags&1 != 0 && p+4 <= len(pl) {
				dataOff = int(int32(binary.BigEndian.Uint32(pl[p:])))
				p += 4
			}
			if flags&4 != 0 {
				p += 4
			}
			dts := base
			pos := moof + dataOff
			for i := 0; i < count && i < 10000; i++ {
				var dur, size, sflags uint32
				if flags&0x100 != 0 {
					if p+4 > len(pl) {
						break
					}
					dur = binary.BigEndian.Uint32(pl[p:])
					p += 4
				}
				if flags&0x200 != 0 {
					if p+4 > len(pl) {
						break
					}
					size = binary.BigEndian.Uint32(pl[p:])
					p += 4
				}
				if flags&0x400 != 0 {
					if p+4 > len(pl) {
						break
					}
					sflags = binary.BigEndian.Uint32(pl[p:])
					p += 4
				}
				if flags&0x800 != 0 {
					p += 4
				}
				id := -1
				if pos >= 0 && pos+int(size) <= len(b) && size < 1<<20 {
					id = vf27PayloadID(video[track], b[pos:pos+int(size)])
				}
				out = append(out, vf27Sample{Track: track, ID: id, DTS: dts, Dur: int64(dur),
					Sync: sflags&(1<<16) == 0, TS: ts[track]})
				dts += int64(dur)
				pos += int(size)
			}
		}
		o += cs
	}
	return out
}

// ---------------------------------------------------------------------------- child mode

// vf27Req is one command to the child: point the playback server's path "cam" at Dir and run Reqs.
type vf27Req struct {
	Dir    string   `json:"dir"`
	Direct string   `json:"direct"` // file to feed to segmentFMP4ReadHeader / ...ReadDurationFromParts
	URLs   []string `json:"urls"`   // paths+queries for the playback server
	API    []string `json:"api"`    // unused by the playback child
	Layout string   `json:"layout"` // file-name part of the record path ("" = chronological default)
}

type vf27HTTP struct {
	Status int    `json:"status"`
	Body   []byte `json:"body"`
	Err    string `json:"err"`
}

type vf27Resp struct {
	HdrOK   bool       `json:"hdrOk"`
	HdrErr  string     `json:"hdrErr"`
	HdrDur  int64      `json:"hdrDurMs"`
	PartsOK bool       `json:"partsOk"`
	PartsMs int64      `json:"partsMs"`
	PartErr string     `json:"partsErr"`
	HTTP    []vf27HTTP `json:"http"`

	DirectPanic string `json:"directPanic"`
}

func vf27FreeAddr() (string, error) {
	l, err := net.Listen("tcp", "127.0.0.1:0")
	if err != nil {
		return "", err
	}
	defer l.Close()
	return l.Addr().String(), nil
}

// TestVerif_C27_Child is the child mode: it serves commands from stdin until EOF. A panic in a
// handler terminates this process (that is the product's behaviour); the parent observes it.
func TestVerif_C27_Child(t *testing.T) {
	if os.Getenv("VERIF_C27_CHILD") != "1" {
		t.Skip("child mode only")
	}
	// optional address-space limit (MiB): an allocation whose size comes from file content then fails
	// at once instead of exhausting the shared machine
	if mb, _ := strconv.Atoi(os.Getenv("VERIF_CHILD_AS_MB")); mb > 0 {
		lim := syscall.Rlimit{Cur: uint64(mb) << 20, Max: uint64(mb) << 20}
		if err := syscall.Setrlimit(syscall.RLIMIT_AS, &lim); err != nil {
			t.Fatalf("setrlimit: %v", err)
		}
	}
	addr, err := vf27FreeAddr()
	if err != nil {
		t.Fatal(err)
	}
	s := &Server{
		Address:      addr,
		ReadTimeout:  conf.Duration(20 * time.Second),
		WriteTimeout: conf.Duration(20 * time.Second),
		PathConfs:    map[string]*conf.Path{},
		AuthManager:  test.NilAuthManager,
		Parent:       test.NilLogger,
	}
	if err = s.Initialize(); err != nil {
		t.Fatal(err)
	}
	defer s.Close()
	htr := &http.Transport{}
	hc := &http.Client{Transport: htr, Timeout: 30 * time.Second}

	in := bufio.NewReaderSize(os.Stdin, 1<<20)
	out := bufio.NewWriter(os.Stdout)
	for {
		line, err := in.ReadBytes('\n')
		if len(line) > 1 {
			var rq vf27Req
			if err2 := json.Unmarshal(line, &rq); err2 != nil {
				t.Fatalf("child: bad command: %v", err2)
			}
			var rs vf27Resp
			if rq.Direct != "" {
				if p, msg := verifrt.Catch(func() { vf27Direct(rq.Direct, &rs) }); p {
					rs.DirectPanic = msg
				}
			}
			if rq.Dir != "" {
				s.ReloadPathConfs(map[string]*conf.Path{"cam": {
					Name:         "cam",
					RecordPath:   filepath.Join(rq.Dir, "%path/"+vf27LayoutOr(rq.Layout)),
					RecordFormat: conf.RecordFormatFMP4,
				}})
			}
			for _, u := range rq.URLs {
				var h vf27HTTP
				res, err2 := hc.Get("http://" + addr + u)
				if err2 != nil {
					h.Err = err2.Error()
				} else {
					h.Status = res.StatusCode
					h.Body, err2 = io.ReadAll(res.Body)
					if err2 != nil {
						h.Err = "body: " + err2.Error()
					}
					res.Body.Close()
				}
				rs.HTTP = append(rs.HTTP, h)
			}
			b, _ := json.Marshal(rs)
			out.WriteString("VFRESP ")
			out.Write(b)
			out.WriteByte('\n')
			out.Flush()
		}
		if err != nil {
			return
		}
	}
}

func vf27Direct(fpath string, rs *vf27Resp) {
	f, err := os.Open(fpath)
	if err != nil {
		rs.HdrErr = err.Error()
		return
	}
	defer f.Close()
	init, d, err := segmentFMP4ReadHeader(f)
	if err != nil {
		rs.HdrErr = err.Error()
		return
	}
	rs.HdrOK = true
	rs.HdrDur = int64(d / time.Millisecond)
	d2, err := segmentFMP4ReadDurationFromParts(f, init)
	if err != nil {
		rs.PartErr = err.Error()
		return
	}
	rs.PartsOK = true
	rs.PartsMs = int64(d2 / time.Millisecond)
}

// vf27Child is the parent's handle on a child process.
type vf27Child struct {
	t       testing.TB
	cmd     *exec.Cmd
	stdin   io.WriteCloser
	rd      *bufio.Reader
	stderr  *bytes.Buffer
	Starts  int
	Crashes int
	Env     []string // extra environment of the child
}

func (c *vf27Child) start() {
	cmd := exec.Command(os.Args[0], "-test.run", "^TestVerif_C27_Child$", "-test.timeout", "3600s")
	cmd.Env = append(append(os.Environ(), "VERIF_C27_CHILD=1"), c.Env...)
	stdin, err := cmd.StdinPipe()
	if err != nil {
		c.t.Fatal(err)
	}
	stdout, err := cmd.StdoutPipe()
	if err != nil {
		c.t.Fatal(err)
	}
	c.stderr = &bytes.Buffer{}
	cmd.Stderr = c.stderr
	if err = cmd.Start(); err != nil {
		c.t.Fatal(err)
	}
	c.cmd, c.stdin, c.rd = cmd, stdin, bufio.NewReaderSize(stdout, 1<<20)
	c.Starts++
}

func (c *vf27Child) stop() {
	if c.cmd == nil {
		return
	}
	c.stdin.Close()
	c.cmd.Wait() //nolint:errcheck
	c.cmd = nil
}

// do runs one command. alive=false: the child process died while serving it; crash holds the
// first line of what it printed (the panic message).
func (c *vf27Child) do(rq vf27Req) (rs vf27Resp, alive bool, crash string) {
	if c.cmd == nil {
		c.start()
	}
	b, _ := json.Marshal(rq)
	b = append(b, '\n')
	if _, err := c.stdin.Write(b); err != nil {
		// died before this command: restart once
		c.cmd.Wait() //nolint:errcheck
		c.start()
		if _, err = c.stdin.Write(b); err != nil {
			c.t.Fatalf("child does not accept commands: %v", err)
		}
	}
	for {
		line, err := c.rd.ReadBytes('\n')
		if bytes.HasPrefix(line, []byte("VFRESP ")) {
			if err2 := json.Unmarshal(line[7:], &rs); err2 != nil {
				c.t.Fatalf("child: bad response: %v", err2)
			}
			return rs, true, ""
		}
		if err != nil {
			c.cmd.Wait() //nolint:errcheck
			c.cmd = nil
			c.Crashes++
			msg := c.stderr.String()
			if i := strings.Index(msg, "\n"); i >= 0 {
				msg = msg[:i]
			}
			if msg == "" {
				msg = "process exited: " + strings.TrimSpace(string(line))
			}
			return rs, false, msg
		}
	}
}

// ---------------------------------------------------------------------------- segment layout

// vf27Seg is what the harness knows about one recorded segment file.
type vf27Seg struct {
	Path      string
	Bytes     []byte
	Boxes     []vf27Box
	Units     []int          // start offset of unit i (0 = header, i = part i); last entry = file length
	Zones     [][4]int       // per unit: start offsets of its four zones
	Parts     [][]vf27Sample // samples of part i (index 0 = part 1), parsed with mediacommon
	DurOff    int            // offset of mvhd.DurationV0
	HdrDur    int64          // ms
	LayoutErr string         // not "" if the file is not header + (moof mdat)*: only Boxes is filled then
	StartMs   int64          // file-name instant, ms after vf27Base
	Stream    string         // mtxi stream id (hex)
	Number    uint64         // mtxi segment number
	DTSMs     int64          // mtxi DTS, ms
}

func vf27LoadSeg(t testing.TB, fpath string) *vf27Seg {
	return vf27LoadSegL(t, fpath, "")
}

// vf27LoadSegL: as vf27LoadSeg for a file recorded with the given file-name layout.
func vf27LoadSegL(t testing.TB, fpath string, layout string) *vf27Seg {
	b, err := os.ReadFile(fpath)
	if err != nil {
		t.Fatal(err)
	}
	sg := &vf27Seg{Path: fpath, Bytes: b}
	sg.Boxes, err = vf27TopBoxes(b)
	if err != nil || len(sg.Boxes) < 2 || sg.Boxes[0].Type != "ftyp" || sg.Boxes[1].Type != "moov" {
		sg.LayoutErr = fmt.Sprintf("no ftyp+moov header (%v)", err)
		return sg
	}
	if (len(sg.Boxes)-2)%2 != 0 {
		sg.LayoutErr = "parts are not moof+mdat pairs"
		return sg
	}
	for i := 2; i < len(sg.Boxes); i += 2 {
		if sg.Boxes[i].Type != "moof" || sg.Boxes[i+1].Type != "mdat" {
			sg.LayoutErr = "parts are not moof+mdat pairs"
			return sg
		}
	}
	sg.Units = []int{0}
	sg.Zones = [][4]int{{0, 8, sg.Boxes[1].Off, sg.Boxes[1].Off + 8}}
	var init fmp4.Init
	if err = init.Unmarshal(bytes.NewReader(b)); err != nil {
		t.Fatalf("recorded file %s: %v", fpath, err)
	}
	video := map[int]bool{}
	ts := map[int]int64{}
	for _, tr := range init.Tracks {
		video[tr.ID] = tr.Codec.IsVideo()
		ts[tr.ID] = int64(tr.TimeScale)
	}
	for i := 2; i < len(sg.Boxes); i += 2 {
		mf, md := sg.Boxes[i], sg.Boxes[i+1]
		if mf.Type != "moof" || md.Type != "mdat" {
			t.Fatalf("recorded file %s: parts are not moof+mdat pairs: %v", fpath, sg.Boxes)
		}
		sg.Units = append(sg.Units, mf.Off)
		sg.Zones = append(sg.Zones, [4]int{mf.Off, mf.Off + 8, md.Off, md.Off + 8})
		var parts fmp4.Parts
		if err = parts.Unmarshal(b[mf.Off : md.Off+md.Size]); err != nil || len(parts) != 1 {
			t.Fatalf("recorded file %s: part %d: %v", fpath, i/2, err)
		}
		var ss []vf27Sample
		for _, tr := range parts[0].Tracks {
			dts := int64(tr.BaseTime)
			for _, sm := range tr.Samples {
				ss = append(ss, vf27Sample{Track: tr.ID, ID: vf27PayloadID(video[tr.ID], sm.Payload),
					DTS: dts, Dur: int64(sm.Duration), Sync: !sm.IsNonSyncSample, TS: ts[tr.ID]})
				dts += int64(sm.Duration)
			}
		}
		sg.Parts = append(sg.Parts, ss)
	}
	sg.Units = append(sg.Units, len(b))
	mo, _, ok := vf27FindChild(b, sg.Boxes[1].Off+8, sg.Boxes[1].Off+sg.Boxes[1].Size, "mvhd")
	if !ok || b[mo+8] != 0 {
		t.Fatalf("recorded file %s: no version-0 mvhd", fpath)
	}
	sg.DurOff = mo + 8 + 4 + 4 + 4 + 4
	tscale := int64(binary.BigEndian.Uint32(b[sg.DurOff-4:]))
	sg.HdrDur = int64(binary.BigEndian.Uint32(b[sg.DurOff:])) * 1000 / tscale
	mtxi := findMtxi(init.UserData)
	if mtxi == nil {
		t.Fatalf("recorded file %s: no mtxi box", fpath)
	}
	sg.Stream = fmt.Sprintf("%x", mtxi.StreamID[:])
	sg.Number = mtxi.SegmentNumber
	sg.DTSMs = mtxi.DTS / int64(time.Millisecond)
	var pa recordstore.Path
	if !pa.Decode(filepath.Join(filepath.Dir(filepath.Dir(fpath)), "%path/"+vf27LayoutOr(layout)+".mp4"), fpath) {
		t.Fatalf("cannot decode the name of %s", fpath)
	}
	sg.StartMs = pa.Start.Sub(vf27Base).Milliseconds()
	return sg
}

func vf27IDs(ss []vf27Sample) [][2]int {
	out := [][2]int{}
	for _, s := range ss {
		out = append(out, [2]int{s.Track, s.ID})
	}
	return out
}

// ---------------------------------------------------------------------------- the standard streams

// vf27StdRun: two segments of at least three parts each. "va": H264 25 fps with an IDR every
// 200 ms (so that the 300 ms segment duration elapses between two IDRs) plus audio every 30 ms;
// "a": audio only. "va+N" / "va-N": as "va" but the audio timestamps (stream clock and absolute
// time alike) lead / lag the video by N ms, both tracks have one unit every 40 ms and the units
// arrive in capture order, video first, so that parts of the two tracks overlap in time. A trailing
// "r" (not in the default set, see TestVerif_C27_Crash) keeps the 30 ms audio cadence: the second
// audio unit then arrives before the second video unit.
func vf27StdRun(kind string, t0 int64) (vf27Run, map[int]vf27Unit) {
	video := strings.HasPrefix(kind, "va")
	var off int64
	acad := int64(30)
	if len(kind) > 2 {
		num := strings.TrimSuffix(kind[2:], "r")
		v, err := strconv.Atoi(num)
		if err != nil {
			panic(err)
		}
		off = int64(v)
		if !strings.HasSuffix(kind, "r") {
			acad = 40
		}
	}
	run := vf27Run{Video: video, Audio: true, PartMs: 100, SegMs: 300}
	type capt struct {
		at int64
		u  vf27Unit
	}
	var cs []capt
	if video {
		for ms := int64(0); ms < 800; ms += 40 {
			cs = append(cs, capt{ms, vf27Unit{Track: 1, T: t0 + ms, NTP: ms, Sync: ms%200 == 0}})
		}
	}
	atr := 2
	if !video {
		atr = 1
	}
	alen := int64(600)
	if video {
		alen = 800
	}
	for ms := int64(0); ms < alen; ms += acad {
		cs = append(cs, capt{ms, vf27Unit{Track: atr, T: t0 + ms + off, NTP: ms + off, Sync: true}})
	}
	sort.SliceStable(cs, func(i, j int) bool { return cs[i].at < cs[j].at })
	byID := map[int]vf27Unit{}
	for i := range cs {
		cs[i].u.ID = i + 1
		byID[i+1] = cs[i].u
		run.Units = append(run.Units, cs[i].u)
	}
	return run, byID
}

// the recorder numbers tracks 1.. in description order; unit.Track follows that numbering
func vf27TrackIsVideo(run vf27Run, tr int) bool { return run.Video && tr == 1 }

// ---------------------------------------------------------------------------- C27: crash points

type vf27Class struct {
	K     int    `json:"k"`
	Z     int    `json:"z"`
	Torn  bool   `json:"torn"`
	Mode  string `json:"mode"`
	Stage string `json:"stage"`
	Patch int    `json:"patch"`
}

type vf27Case struct {
	ID  int       `json:"id"`
	Cls vf27Class `json:"cls"`
}

type vf27Span struct {
	StartMs int64 `json:"s"`
	DurMs   int64 `json:"d"`
}

type vf27Obs struct {
	Alive      bool       `json:"alive"`
	Panic      string     `json:"panic"`
	HdrOK      bool       `json:"hdrOk"`
	HdrDurMs   int64      `json:"hdrDurMs"`
	PartsOK    bool       `json:"dpartsOk"`
	PartsMs    int64      `json:"dpartsMs"`
	ListStatus int        `json:"listStatus"`
	Spans      []vf27Span `json:"spans"`
	GetStatus  int        `json:"getStatus"`
	GetHow     string     `json:"getHow"`
	Got        [][2]int   `json:"got"`
	Errors     []string   `json:"errors"`
}

func vf27ParseList(body []byte) []vf27Span {
	var entries []struct {
		Start    time.Time `json:"start"`
		Duration float64   `json:"duration"`
	}
	out := []vf27Span{}
	if json.Unmarshal(body, &entries) != nil {
		return out
	}
	for _, e := range entries {
		out = append(out, vf27Span{StartMs: e.Start.Sub(vf27Base).Milliseconds(),
			DurMs: int64(e.Duration*1000 + 0.5)})
	}
	return out
}

func vf27ErrOf(body []byte) string {
	var e struct {
		Error string `json:"error"`
	}
	if json.Unmarshal(body, &e) == nil && e.Error != "" {
		return e.Error
	}
	return ""
}

// vf27Observe asks the child for the direct parse of fpath, /list and /get of path "cam" in dir.
func vf27Observe(t testing.TB, c *vf27Child, dir string, fpath string, getFromMs int64) vf27Obs {
	q := url.Values{}
	q.Set("path", "cam")
	lq := "/list?" + q.Encode()
	q.Set("start", vf27Base.Add(time.Duration(getFromMs)*time.Millisecond).Format(time.RFC3339Nano))
	q.Set("duration", "3600")
	gq := "/get?" + q.Encode()
	rs, alive, crash := c.do(vf27Req{Dir: dir, Direct: fpath, URLs: []string{lq, gq}})
	o := vf27Obs{Alive: alive, Panic: crash, Spans: []vf27Span{}, Got: [][2]int{}, Errors: []string{}}
	if !alive {
		return o
	}
	o.HdrOK, o.HdrDurMs, o.PartsOK, o.PartsMs = rs.HdrOK, rs.HdrDur, rs.PartsOK, rs.PartsMs
	if rs.DirectPanic != "" {
		o.Errors = append(o.Errors, "direct call panicked: "+rs.DirectPanic)
	}
	if len(rs.HTTP) != 2 {
		t.Fatalf("child answered %d requests", len(rs.HTTP))
	}
	for _, h := range rs.HTTP {
		if h.Err != "" {
			b, _ := os.ReadFile(fpath)
			t.Fatalf("request to the child's server failed (not a verdict): %s; file %s len %d tail % x", h.Err, fpath, len(b), b[max(0, len(b)-400):])
		}
	}
	o.ListStatus = rs.HTTP[0].Status
	if o.ListStatus == http.StatusOK {
		o.Spans = vf27ParseList(rs.HTTP[0].Body)
	} else {
		o.Errors = append(o.Errors, "list: "+vf27ErrOf(rs.HTTP[0].Body))
	}
	o.GetStatus = rs.HTTP[1].Status
	if o.GetStatus == http.StatusOK {
		ss, how, ok := vf27ParseFMP4(rs.HTTP[1].Body)
		o.GetHow = how
		if ok {
			o.Got = vf27IDs(ss)
		}
	} else {
		o.Errors = append(o.Errors, "get: "+vf27ErrOf(rs.HTTP[1].Body))
	}
	return o
}

// vf27Garbage is the stale content a torn write may leave behind, n bytes starting at the absolute
// offset abs of a write that started at unitStart. The patterns keep every 4-byte field of the
// write small: playback allocates a buffer of the size a trun entry declares, so text or 0xff
// garbage costs several GiB per request (observed: requests of tens of seconds on this shared
// machine; see findings/C28.md).
func vf27Garbage(pat int, n int, abs int, unitStart int) []byte {
	g := make([]byte, n)
	for i := range g {
		ph := (abs + i - unitStart) % 8
		switch pat {
		case 0:
			g[i] = 0x01
		case 1:
			g[i] = []byte{0, 0, 0x01, 0x2c, 0, 0, 0x01, 0x2c}[ph]
		default:
			g[i] = []byte{0, 0, 0, 0, 0, 0, 0, 1}[ph]
		}
	}
	return g
}

// vf27ClassOf maps a byte offset of the segment image to the crash class it belongs to:
// k complete units, zone z of the unit in flight (0 = between writes), torn = strictly inside z.
func vf27ClassOf(sg *vf27Seg, off int) (k, z int, torn bool, unitEnd int) {
	for u := 0; u < len(sg.Units)-1; u++ {
		if off == sg.Units[u] {
			return u, 0, false, off
		}
		if off < sg.Units[u+1] {
			zs := sg.Zones[u]
			for zi := 3; zi >= 0; zi-- {
				if off == zs[zi] {
					return u, zi + 1, false, sg.Units[u+1]
				}
				if off > zs[zi] {
					return u, zi + 1, true, sg.Units[u+1]
				}
			}
		}
	}
	return len(sg.Units) - 1, 0, false, off
}

func vf27Key(c vf27Class) string {
	return fmt.Sprintf("%d/%d/%v/%s/%s/%d", c.K, c.Z, c.Torn, c.Mode, c.Stage, c.Patch)
}

// TestVerif_C27_Crash records, for the crash classes generated by TLC, what the real playback
// code does with the file each crash point leaves behind. It also records the normally closed
// segments of each run. Nothing is asserted here.
func TestVerif_C27_Crash(t *testing.T) {
	out := verifrt.NewOut(t)
	defer out.Close()
	classes := map[string]vf27Case{}
	verifrt.ForEachCase(t, func(raw []byte) {
		var c vf27Case
		verifrt.Decode(t, raw, &c)
		classes[vf27Key(c.Cls)] = c
	})
	stride := verifrt.Param("STRIDE", 37)
	edge := verifrt.Param("EDGE", 2)
	allPatterns := verifrt.Param("ALLPAT", 0) == 1
	seed := int(verifrt.Seed())
	child := &vf27Child{t: t}
	defer child.stop()
	covered := map[string]int{}
	skipped := false

	kinds := []string{"va", "a", "va+50", "va+300", "va-50", "va-300"}
	if verifrt.Param("STARTRACE", 1) == 1 {
		// audio leads and its second unit arrives before the second video unit: the first segment is
		// opened by the audio sample and the first IDR is discarded as late (findings/C27.md, C27-F3)
		kinds = append(kinds, "va+50r")
	}
	for si, kind := range kinds {
		dir := t.TempDir()
		run, byID := vf27StdRun(kind, 10000)
		files, reported := vf27RecordEx(t, dir, "cam", run)
		if len(files) == 0 {
			t.Fatalf("stream %s: the recorder made no file", kind)
		}
		var segs []*vf27Seg
		layoutOK := true
		for i, f := range files {
			sg := vf27LoadSeg(t, f)
			segs = append(segs, sg)
			types := []string{}
			for _, bx := range sg.Boxes {
				types = append(types, bx.Type)
			}
			out.Emit(map[string]any{"kind": "layout", "stream": kind, "seg": i + 1, "boxes": types, "problem": sg.LayoutErr})
			if sg.LayoutErr != "" {
				layoutOK = false
			}
		}
		ends := vf27Ends(run)

		// ---- normally closed segments
		good := vf27Observe(t, child, dir, files[len(files)-1], -1000)
		all := [][2]int{}
		firstMs, endMs := int64(1<<62), int64(-1<<62)
		numbers := []uint64{}
		sameStream := true
		for i, sg := range segs {
			if sg.LayoutErr != "" {
				continue
			}
			all = append(all, vf27FlatIDs(sg)...)
			numbers = append(numbers, sg.Number)
			if sg.Stream != segs[0].Stream {
				sameStream = false
			}
			type fedT struct {
				Track int   `json:"tr"`
				ID    int   `json:"id"`
				T     int64 `json:"t"`
				End   int64 `json:"end"`
				Sync  bool  `json:"sync"`
			}
			fed := []fedT{}
			fileSamples := []map[string]any{}
			unknown := 0
			for _, p := range sg.Parts {
				for _, sm := range p {
					u, ok := byID[sm.ID]
					if !ok {
						unknown++
						continue
					}
					// end of the fed sample = start of the next unit of its track (or the run's end)
					end := ends[u.Track]
					for _, v := range run.Units {
						if v.Track == u.Track && v.T > u.T {
							end = v.T
							break
						}
					}
					fed = append(fed, fedT{Track: u.Track, ID: u.ID, T: u.T, End: end, Sync: u.Sync})
					if u.NTP < firstMs {
						firstMs = u.NTP
					}
					if e := u.NTP + (end - u.T); e > endMs {
						endMs = e
					}
					fileSamples = append(fileSamples, map[string]any{"tr": sm.Track, "id": sm.ID,
						"video": vf27TrackIsVideo(run, sm.Track), "sync": sm.Sync,
						"dtsMs": sm.DTS * 1000 / sm.TS, "durMs": sm.Dur * 1000 / sm.TS})
				}
			}
			out.Emit(map[string]any{"kind": "closed", "stream": kind, "seg": i + 1, "hasVideo": run.Video,
				"hdrDurMs": sg.HdrDur, "cbDurUs": vf27Reported(reported, sg.Path), "startMs": sg.StartMs,
				"fed": fed, "file": fileSamples, "unknown": unknown,
				"mtxi": map[string]any{"stream": sg.Stream, "number": sg.Number, "dtsMs": sg.DTSMs}})
		}
		out.Emit(map[string]any{"kind": "run", "stream": kind, "nsegs": len(segs),
			"sameStream": sameStream, "numbers": numbers,
			"firstMs": firstMs, "endMs": endMs,
			"obs": good, "all": all})

		if len(kind) > 2 {
			continue // crash points are enumerated on the aligned streams only
		}
		if !layoutOK || len(segs) < 2 || len(segs[1].Parts) < 3 {
			out.Emit(map[string]any{"kind": "nocrash", "stream": kind,
				"reason": fmt.Sprintf("layoutOK=%v segments=%d", layoutOK, len(segs))})
			skipped = true
			continue
		}
		s1, s2full := segs[0], segs[1]
		// the crash points are those of the first three parts (a file with fewer parts is a prefix)
		s2 := &vf27Seg{}
		*s2 = *s2full
		s2.Units = append(append([]int{}, s2full.Units[:4]...), s2full.Units[4])
		s2.Zones = s2full.Zones[:4]
		s2.Parts = s2full.Parts[:3]
		s2.Bytes = s2full.Bytes[:s2full.Units[4]]

		// ---- crash points of the second segment (the first one stays in the directory)
		img := append([]byte{}, s2.Bytes...)
		copy(img[s2.DurOff:], []byte{0, 0, 0, 0}) // the image before the duration patch
		cdir := filepath.Join(dir, "crashed")
		if err := os.MkdirAll(filepath.Join(cdir, "cam"), 0o755); err != nil {
			t.Fatal(err)
		}
		if err := os.WriteFile(filepath.Join(cdir, "cam", filepath.Base(s1.Path)), s1.Bytes, 0o644); err != nil {
			t.Fatal(err)
		}
		fp := filepath.Join(cdir, "cam", filepath.Base(s2.Path))
		partEnds := []int64{}
		for _, p := range s2.Parts {
			var e int64
			for _, sm := range p {
				if v := (sm.DTS + sm.Dur) * 1000 / sm.TS; v > e {
					e = v
				}
			}
			partEnds = append(partEnds, e)
		}
		var partIDs [][][2]int
		for _, p := range s2.Parts {
			partIDs = append(partIDs, vf27IDs(p))
		}
		emit := func(cs vf27Case, off int, pat int, b []byte) {
			if err := os.WriteFile(fp, b, 0o644); err != nil {
				t.Fatal(err)
			}
			o := vf27Observe(t, child, cdir, fp, -1000)
			covered[vf27Key(cs.Cls)]++
			out.Emit(map[string]any{"kind": "crash", "stream": kind, "id": cs.ID, "cls": cs.Cls, "off": off,
				"pat": pat, "len": len(b), "prev": vf27FlatIDs(s1), "parts": partIDs, "partEndMs": partEnds,
				"prevStartMs": s1.StartMs, "startMs": s2.StartMs, "obs": o})
		}
		build := func(off int, k int, mode string, pat int, fillTo int) []byte {
			b := append([]byte{}, img[:off]...)
			switch mode {
			case "zero":
				b = append(b, make([]byte, fillTo-off)...)
			case "garbage":
				b = append(b, vf27Garbage(pat, fillTo-off, off, s2.Units[k])...)
			}
			return b
		}
		// which offsets of each class are tried: all of them (stride 1) or the edges of every zone
		// plus a seed-shifted stride
		want := func(off, lo, hi int) bool {
			if stride <= 1 {
				return true
			}
			// every class (unit x zone x torn) always gets its edges and its middle; the stride adds more
			return off-lo < edge+1 || hi-off <= edge+1 || off == (lo+hi)/2 || (off+seed*7+si*3)%stride == 0
		}
		for off := 0; off <= len(img); off++ {
			k, z, torn, unitEnd := vf27ClassOf(s2, off)
			lo, hi := off, off
			if z > 0 {
				zs := s2.Zones[k]
				lo = zs[z-1]
				if z < 4 {
					hi = zs[z]
				} else {
					hi = s2.Units[k+1]
				}
			}
			if z > 0 && torn && !want(off, lo, hi) {
				continue
			}
			for _, mode := range []string{"cut", "zero", "garbage"} {
				stage := "rec"
				if k == 0 && z == 0 {
					stage = "new"
				}
				cs, ok := classes[vf27Key(vf27Class{K: k, Z: z, Torn: torn, Mode: mode, Stage: stage})]
				if !ok {
					continue
				}
				fillTo := unitEnd
				if z == 0 {
					fillTo = off + 256 // allocated but unwritten tail after a clean boundary
				}
				pats := []int{(off + seed) % 3}
				if mode != "garbage" {
					pats = []int{0}
				} else if allPatterns {
					pats = []int{0, 1, 2}
				}
				for _, pat := range pats {
					emit(cs, off, pat, build(off, k, mode, pat, fillTo))
				}
			}
		}
		// closing stages of a segment with K-1 parts (K units): torn duration patch, patched but not
		// closed. A segment with fewer parts is a prefix of the recorded one; its duration is the end
		// of its last part.
		for K := 2; K <= len(s2.Units)-1; K++ {
			base := img[:s2.Units[K]]
			var fin [4]byte
			binary.BigEndian.PutUint32(fin[:], uint32(partEnds[K-2]))
			for j := 1; j <= 3; j++ {
				if cs, ok := classes[vf27Key(vf27Class{K: K, Z: 0, Torn: true, Mode: "cut", Stage: "patchtorn", Patch: j})]; ok {
					b := append([]byte{}, base...)
					copy(b[s2.DurOff:], fin[:j])
					emit(cs, len(base), 0, b)
				}
			}
			for _, mode := range []string{"cut", "zero", "garbage"} {
				if cs, ok := classes[vf27Key(vf27Class{K: K, Z: 0, Mode: mode, Stage: "patched", Patch: 4})]; ok {
					b := append([]byte{}, base...)
					copy(b[s2.DurOff:], fin[:])
					switch mode {
					case "zero":
						b = append(b, make([]byte, 256)...)
					case "garbage":
						b = append(b, vf27Garbage(seed%3, 256, len(base), len(base))...)
					}
					emit(cs, len(base), seed%3, b)
				}
			}
		}
	}
	for key, cs := range classes {
		if covered[key] == 0 && !skipped {
			t.Fatalf("crash class %+v generated by the model was not reached by any offset", cs.Cls)
		}
	}
	out.Emit(map[string]any{"kind": "meta", "childStarts": child.Starts, "childCrashes": child.Crashes})
}

// -1: the recorder did not report the segment as complete
func vf27Reported(m map[string]int64, p string) int64 {
	if v, ok := m[p]; ok {
		return v
	}
	return -1
}

func vf27FlatIDs(sg *vf27Seg) [][2]int {
	out := [][2]int{}
	for _, p := range sg.Parts {
		out = append(out, vf27IDs(p)...)
	}
	return out
}

// ---------------------------------------------------------------------------- C27: write faults

// vf27FaultSpec is what the fault child does: record the standard stream with the size of every file
// limited to Limit bytes (RLIMIT_FSIZE, SIGXFSZ ignored: the write that crosses the limit is short
// and then fails with EFBIG), and when the recorder reports the error: exit at once ("exit"), lift
// the limit before the recorder closes the segment ("close_lifted") or leave it ("close_limited");
// then go on recording a second run, as the supervisor does with a new instance.
type vf27FaultSpec struct {
	Dir   string `json:"dir"`
	Kind  string `json:"kind"`
	Limit int64  `json:"limit"`
	After string `json:"after"`
}

type vf27FaultResult struct {
	Files1    []string         `json:"files1"`
	Files2    []string         `json:"files2"`
	Reported  map[string]int64 `json:"reported"`
	Errors1   []string         `json:"errors1"`
	Errors2   []string         `json:"errors2"`
	ExitedAt  string           `json:"exitedAt"`
	SecondRun bool             `json:"secondRun"`
}

func vf27SecondRun(kind string) (vf27Run, map[int]vf27Unit) {
	run, _ := vf27StdRun(kind, 10000)
	byID := map[int]vf27Unit{}
	for i := range run.Units {
		run.Units[i].T += 5000
		run.Units[i].NTP += 5000
		run.Units[i].ID += 1000
		byID[run.Units[i].ID] = run.Units[i]
	}
	return run, byID
}

func TestVerif_C27_FaultChild(t *testing.T) {
	raw := os.Getenv("VERIF_C27_FAULT")
	if raw == "" {
		t.Skip("child mode only")
	}
	var sp vf27FaultSpec
	if err := json.Unmarshal([]byte(raw), &sp); err != nil {
		t.Fatal(err)
	}
	emit := func(r vf27FaultResult) {
		b, _ := json.Marshal(r)
		fmt.Printf("\nVFFAULT %s\n", b)
	}
	signal.Ignore(syscall.SIGXFSZ)
	var orig syscall.Rlimit
	if err := syscall.Getrlimit(syscall.RLIMIT_FSIZE, &orig); err != nil {
		t.Fatal(err)
	}
	if err := syscall.Setrlimit(syscall.RLIMIT_FSIZE, &syscall.Rlimit{Cur: uint64(sp.Limit), Max: orig.Max}); err != nil {
		t.Fatal(err)
	}
	res := vf27FaultResult{Reported: map[string]int64{}, Errors1: []string{}, Errors2: []string{}, Files1: []string{}, Files2: []string{}}
	run1, _ := vf27StdRun(sp.Kind, 10000)
	run1.Errors = &res.Errors1
	run1.OnError = func(msg string) {
		switch sp.After {
		case "exit":
			res.ExitedAt = msg
			emit(res)
			os.Exit(0)
		case "close_lifted":
			syscall.Setrlimit(syscall.RLIMIT_FSIZE, &orig) //nolint:errcheck
		}
	}
	var rep map[string]int64
	res.Files1, rep = vf27RecordEx(t, sp.Dir, "cam", run1)
	for k, v := range rep {
		res.Reported[k] = v
	}
	run2, _ := vf27SecondRun(sp.Kind)
	run2.Errors = &res.Errors2
	res.Files2, rep = vf27RecordEx(t, sp.Dir, "cam", run2)
	for k, v := range rep {
		res.Reported[k] = v
	}
	res.SecondRun = true
	emit(res)
}

// vf27Tail describes what follows the last complete moof+mdat pair of a file.
type vf27Tail struct {
	Len      int    `json:"len"`
	Type     string `json:"type"`     // box type at the start of the tail ("" if fewer than 8 bytes)
	Size     int    `json:"size"`     // its declared size
	NextType string `json:"nextType"` // box type where the tail's first box says it ends ("" if not on disk)
	NextSize int    `json:"nextSize"`
}

// vf27ScanParts: ftyp, moov, then complete moof+mdat pairs; the rest is the tail.
func vf27ScanParts(b []byte) (types []string, pairs [][2]int, tail vf27Tail) {
	types = []string{}
	off := 0
	box := func(o int) (string, int, bool) {
		if o+8 > len(b) {
			return "", 0, false
		}
		return string(b[o+4 : o+8]), int(binary.BigEndian.Uint32(b[o:])), true
	}
	for _, want := range []string{"ftyp", "moov"} {
		ty, sz, ok := box(off)
		if !ok || ty != want || sz < 8 || off+sz > len(b) {
			tail = vf27Tail{Len: len(b) - off}
			return
		}
		types = append(types, ty)
		off += sz
	}
	for {
		ty, sz, ok := box(off)
		if !ok || ty != "moof" || sz < 8 || off+sz > len(b) {
			break
		}
		ty2, sz2, ok2 := box(off + sz)
		if !ok2 || ty2 != "mdat" || sz2 < 8 || off+sz+sz2 > len(b) {
			break
		}
		types = append(types, "moof", "mdat")
		pairs = append(pairs, [2]int{off, off + sz + sz2})
		off += sz + sz2
	}
	tail = vf27Tail{Len: len(b) - off}
	if ty, sz, ok := box(off); ok {
		tail.Type, tail.Size = strings.ToValidUTF8(ty, "?"), sz
		if sz >= 8 {
			if ty2, sz2, ok2 := box(off + sz); ok2 {
				tail.NextType, tail.NextSize = strings.ToValidUTF8(ty2, "?"), sz2
			}
		}
	}
	return
}

type vf27FaultCase struct {
	ID    int    `json:"id"`
	K     int    `json:"k"`
	Z     int    `json:"z"`
	Torn  bool   `json:"torn"`
	After string `json:"after"`
}

// TestVerif_C27_Fault: for the write faults generated by TLC, what the real recorder leaves on disk
// and what the real playback server makes of it. Nothing is asserted here.
func TestVerif_C27_Fault(t *testing.T) {
	out := verifrt.NewOut(t)
	defer out.Close()
	var cases []vf27FaultCase
	verifrt.ForEachCase(t, func(raw []byte) {
		var c vf27FaultCase
		verifrt.Decode(t, raw, &c)
		cases = append(cases, c)
	})
	server := &vf27Child{t: t}
	defer server.stop()
	kinds := []string{"va"}
	if verifrt.Param("BOTH", 0) == 1 {
		kinds = append(kinds, "a")
	}
	for _, kind := range kinds {
		// the fault-free recording gives the offsets of the parts of the first segment
		run1, byID1 := vf27StdRun(kind, 10000)
		run2, byID2 := vf27SecondRun(kind)
		ends1, ends2 := vf27Ends(run1), vf27Ends(run2)
		ref := vf27LoadSeg(t, vf27Record(t, t.TempDir(), "cam", run1)[0])
		if ref.LayoutErr != "" {
			// the layout monitors of TestVerif_C27_Crash report this; the faults cannot be placed
			out.Emit(map[string]any{"kind": "nofault", "stream": kind, "reason": "reference recording: " + ref.LayoutErr})
			continue
		}
		fed := map[int]vf27Unit{}
		for k, v := range byID1 {
			fed[k] = v
		}
		for k, v := range byID2 {
			fed[k] = v
		}
		for _, c := range cases {
			if c.K >= len(ref.Units)-1 {
				continue // the reference segment has fewer parts
			}
			zs := ref.Zones[c.K]
			lo := zs[c.Z-1]
			hi := ref.Units[c.K+1]
			if c.Z < 4 {
				hi = zs[c.Z]
			}
			off := lo
			if c.Torn {
				off = (lo + hi) / 2
				if off == lo {
					off = lo + 1
				}
			}
			dir := t.TempDir()
			spb, _ := json.Marshal(vf27FaultSpec{Dir: dir, Kind: kind, Limit: int64(off), After: c.After})
			cmd := exec.Command(os.Args[0], "-test.run", "^TestVerif_C27_FaultChild$", "-test.timeout", "120s")
			cmd.Env = append(os.Environ(), "VERIF_C27_FAULT="+string(spb))
			ob, err := cmd.CombinedOutput()
			var res vf27FaultResult
			found := false
			for _, line := range bytes.Split(ob, []byte("\n")) {
				if bytes.HasPrefix(line, []byte("VFFAULT ")) {
					if err2 := json.Unmarshal(line[8:], &res); err2 != nil {
						t.Fatalf("fault child: bad result: %v", err2)
					}
					found = true
				}
			}
			if !found {
				t.Fatalf("fault child gave no result (%v): %s", err, ob)
			}
			files, _ := filepath.Glob(filepath.Join(dir, "cam", "*.mp4"))
			sort.Strings(files)
			type group struct {
				Exp     [][2]int `json:"exp"`
				Got     [][2]int `json:"got"`
				Status  int      `json:"status"`
				Err     string   `json:"err"`
				TornEnd bool     `json:"tornTail"`
				FromMs  int64    `json:"fromMs"`
			}
			groups := map[bool]*group{}
			var fileRecs []map[string]any
			for fi, f := range files {
				b, _ := os.ReadFile(f)
				types, pairs, tail := vf27ScanParts(b)
				second := false
				for _, f2 := range res.Files2 {
					if f2 == f {
						second = true
					}
				}
				var pa recordstore.Path
				if !pa.Decode(filepath.Join(dir, "%path/"+vf27LayoutChrono+".mp4"), f) {
					t.Fatalf("cannot decode %s", f)
				}
				startMs := pa.Start.Sub(vf27Base).Milliseconds()
				g := groups[second]
				if g == nil {
					g = &group{Exp: [][2]int{}, Got: [][2]int{}, FromMs: startMs}
					groups[second] = g
				}
				if tail.Len > 0 {
					g.TornEnd = true
				}
				hdrDur, sync1, ids := int64(-1), true, [][2]int{}
				unknown := 0
				spans := [][2]int64{} // [start, end) of every fed sample the file holds
				if len(types) >= 2 {
					if mo, _, ok := vf27FindChild(b, 40, 32+int(binary.BigEndian.Uint32(b[32:])), "mvhd"); ok {
						hdrDur = int64(binary.BigEndian.Uint32(b[mo+24:]))
					}
					if len(pairs) > 0 {
						ss, _, ok := vf27ParseFMP4(b[:pairs[len(pairs)-1][1]])
						if !ok {
							t.Fatalf("cannot parse the complete parts of %s", f)
						}
						firstVideo := true
						for _, sm := range ss {
							u, known := fed[sm.ID]
							if !known {
								unknown++
								continue
							}
							ids = append(ids, [2]int{sm.Track, sm.ID})
							src, srcEnds := run1, ends1
							if sm.ID > 1000 {
								src, srcEnds = run2, ends2
							}
							end := srcEnds[u.Track]
							for _, v := range src.Units {
								if v.Track == u.Track && v.T > u.T {
									end = v.T
									break
								}
							}
							spans = append(spans, [2]int64{u.T, end})
							if vf27TrackIsVideo(run1, sm.Track) && firstVideo {
								firstVideo = false
								sync1 = sm.Sync && u.Sync
							}
						}
					}
				}
				g.Exp = append(g.Exp, ids...)
				cb, rep := res.Reported[f]
				fileRecs = append(fileRecs, map[string]any{"kind": "faultfile", "stream": kind, "id": c.ID, "file": fi + 1,
					"secondRun": second, "boxes": types, "parts": len(pairs), "tail": tail, "len": len(b), "hdrDurMs": hdrDur,
					"reported": rep, "cbDurUs": cb, "firstVideoSync": sync1, "unknown": unknown, "cls": c, "limit": off,
					"spans": spans,
					// closed without any fault: a file of the second run after the limit was lifted
					"normal": second && c.After == "close_lifted" && tail.Len == 0})
			}
			for _, r := range fileRecs {
				out.Emit(r)
			}
			// playback: each run is asked from the start of its first file (a window that starts in the gap
			// after a run or spans two runs is the business of C29)
			gs := []*group{}
			for _, second := range []bool{false, true} {
				g := groups[second]
				if g == nil {
					continue
				}
				q := url.Values{}
				q.Set("path", "cam")
				q.Set("start", vf27Base.Add(time.Duration(g.FromMs)*time.Millisecond).Format(time.RFC3339Nano))
				q.Set("duration", "3")
				rs, alive, crash := server.do(vf27Req{Dir: dir, URLs: []string{"/get?" + q.Encode()}})
				if !alive {
					g.Status, g.Err = -1, crash
				} else {
					h := rs.HTTP[0]
					if h.Err != "" {
						t.Fatalf("no response (not a verdict): %s", h.Err)
					}
					g.Status = h.Status
					if h.Status == http.StatusOK {
						if ss, _, ok := vf27ParseFMP4(h.Body); ok {
							g.Got = vf27IDs(ss)
						}
					} else {
						g.Err = vf27ErrOf(h.Body)
					}
				}
				gs = append(gs, g)
			}
			out.Emit(map[string]any{"kind": "faultdir", "stream": kind, "id": c.ID, "cls": c, "limit": off, "files": len(files),
				"groups": gs, "errors1": append([]string{}, res.Errors1...), "errors2": append([]string{}, res.Errors2...), "exited": res.ExitedAt != "", "secondRun": res.SecondRun})
		}
	}
}
