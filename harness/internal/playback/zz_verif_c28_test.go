package playback

// Verification harness for C28 (playback endpoints survive any recording directory content).
// Injected by /verif through -overlay; uses the shared pieces of zz_verif_c27_test.go (recording
// with the real recorder, child mode of the test binary). The test builds, for every shape
// enumerated by TLC (spec/record/RecCorrupt.tla), the corrupted file from a segment recorded by
// the real recorder, and records what the real playback server answers - in a child process,
// because a panic in a handler exits the process by design. Nothing is asserted here.

import (
	"bytes"
	"encoding/binary"
	"encoding/json"
	"fmt"
	"os"
	"path/filepath"
	"strconv"
	"strings"
	"testing"
	"time"

	"github.com/bluenviron/mediamtx/internal/conf"
	"github.com/bluenviron/mediamtx/internal/recordstore"
	"github.com/bluenviron/mediamtx/internal/verifrt"
)

// ---------------------------------------------------------------------------- box tree

type vf28Node struct {
	Type     string
	Size     uint32 // as found (or as forced by a shape)
	ForceSz  bool   // keep Size as it is when serializing
	Payload  []byte // leaves
	Children []*vf28Node
}

var vf28Containers = map[string]bool{"moov": true, "trak": true, "mdia": true, "minf": true, "stbl": true,
	"mvex": true, "udta": true, "moof": true, "traf": true}

func vf28Parse(b []byte) []*vf28Node {
	var out []*vf28Node
	off := 0
	for off+8 <= len(b) {
		sz := int(binary.BigEndian.Uint32(b[off:]))
		if sz < 8 || off+sz > len(b) {
			break
		}
		n := &vf28Node{Type: string(b[off+4 : off+8]), Size: uint32(sz)}
		if vf28Containers[n.Type] {
			n.Children = vf28Parse(b[off+8 : off+sz])
		} else {
			n.Payload = append([]byte{}, b[off+8:off+sz]...)
		}
		out = append(out, n)
		off += sz
	}
	return out
}

func vf28Serialize(nodes []*vf28Node) []byte {
	var out []byte
	for _, n := range nodes {
		var body []byte
		if n.Children != nil {
			body = vf28Serialize(n.Children)
		} else {
			body = n.Payload
		}
		sz := uint32(8 + len(body))
		if n.ForceSz {
			sz = n.Size
		}
		var h [8]byte
		binary.BigEndian.PutUint32(h[:], sz)
		copy(h[4:], n.Type)
		out = append(out, h[:]...)
		out = append(out, body...)
	}
	return out
}

// vf28Find returns the nth (1-based) node of the given type among nodes (not recursive).
func vf28Find(nodes []*vf28Node, typ string, nth int) *vf28Node {
	for _, n := range nodes {
		if n.Type == typ {
			nth--
			if nth == 0 {
				return n
			}
		}
	}
	return nil
}

func vf28Path(nodes []*vf28Node, path ...string) *vf28Node {
	var cur *vf28Node
	list := nodes
	for _, p := range path {
		typ, nth := p, 1
		if i := strings.Index(p, "#"); i >= 0 {
			typ = p[:i]
			nth, _ = strconv.Atoi(p[i+1:])
		}
		cur = vf28Find(list, typ, nth)
		if cur == nil {
			return nil
		}
		list = cur.Children
	}
	return cur
}

// ---------------------------------------------------------------------------- shapes

type vf28Shape struct {
	Kind   string `json:"kind"` // field | drop | dup | swap | foreign
	Box    string `json:"box"`
	Field  string `json:"field"`
	Val    string `json:"val"`
	Site   string `json:"site"`
	Parent string `json:"parent"`
	A      int    `json:"a"`
	B      int    `json:"b"`
	What   string `json:"what"`
	Incons string `json:"incons"` // pair: extra_track | missing_track | codec | timescale
	Mtxi   string `json:"mtxi"`   // pair: continuing | not_continuing | absent | absent_both
	Files  int    `json:"files"`  // pair: 2 | 3
}

type vf28Case struct {
	ID int       `json:"id"`
	Sh vf28Shape `json:"sh"`
	NB string    `json:"nb"` // alone | between
}

func vf28Site(site string) (part, track int) {
	// "p1t1" .. "p2t2"
	return int(site[1] - '0'), int(site[3] - '0')
}

// vf28Locate finds the box a field shape addresses in the tree of a recorded segment.
func vf28Locate(tree []*vf28Node, box string, site string) *vf28Node {
	part, track := vf28Site(site)
	tr := "trak#" + strconv.Itoa(track)
	tf := "traf#" + strconv.Itoa(track)
	mf := "moof#" + strconv.Itoa(part)
	switch box {
	case "ftyp":
		return vf28Path(tree, "ftyp")
	case "moov":
		return vf28Path(tree, "moov")
	case "mvhd":
		return vf28Path(tree, "moov", "mvhd")
	case "trak":
		return vf28Path(tree, "moov", tr)
	case "tkhd":
		return vf28Path(tree, "moov", tr, "tkhd")
	case "mdhd":
		return vf28Path(tree, "moov", tr, "mdia", "mdhd")
	case "stsd":
		return vf28Path(tree, "moov", tr, "mdia", "minf", "stbl", "stsd")
	case "trex":
		return vf28Path(tree, "moov", "mvex", "trex#"+strconv.Itoa(track))
	case "mtxi":
		return vf28Path(tree, "moov", "udta", "mtxi")
	case "moof":
		return vf28Path(tree, mf)
	case "mfhd":
		return vf28Path(tree, mf, "mfhd")
	case "traf":
		return vf28Path(tree, mf, tf)
	case "tfhd":
		return vf28Path(tree, mf, tf, "tfhd")
	case "tfdt":
		return vf28Path(tree, mf, tf, "tfdt")
	case "trun":
		return vf28Path(tree, mf, tf, "trun")
	case "mdat":
		return vf28Path(tree, "mdat#"+strconv.Itoa(part))
	}
	return nil
}

// field -> (offset in the payload, width in bytes); payload = box without its 8-byte header
func vf28FieldAt(n *vf28Node, box, field string) (int, int, bool) {
	switch box + "." + field {
	case "mvhd.version", "mtxi.version", "tfdt.version":
		return 0, 1, true
	case "mvhd.timescale", "mdhd.timescale":
		return 12, 4, true
	case "mvhd.duration":
		return 16, 4, true
	case "tkhd.trackid":
		return 12, 4, true
	case "stsd.entrycount":
		return 4, 4, true
	case "trex.trackid":
		return 4, 4, true
	case "mtxi.segnumber":
		return 20, 8, true
	case "mtxi.dts":
		return 28, 8, true
	case "mtxi.ntp":
		return 36, 8, true
	case "mfhd.seqnumber":
		return 4, 4, true
	case "tfhd.flags", "trun.flags":
		return 1, 3, true
	case "tfhd.trackid":
		return 4, 4, true
	case "tfdt.basetime":
		return 4, 8, true
	case "trun.samplecount":
		return 4, 4, true
	case "trun.dataoffset":
		return 8, 4, true
	case "trun.sampleduration":
		return 12, 4, true
	case "trun.samplesize":
		return 16, 4, true
	}
	return 0, 0, false
}

func vf28Value(orig uint64, width int, val string) uint64 {
	mask := uint64(1)<<(8*uint(width)) - 1
	if width == 8 {
		mask = ^uint64(0)
	}
	switch val {
	case "zero":
		return 0
	case "one":
		return 1
	case "seven":
		return 7
	case "minus1":
		return (orig - 1) & mask
	case "plus1":
		return (orig + 1) & mask
	default: // max
		return mask
	}
}

func vf28PutUint(b []byte, width int, v uint64) {
	for i := 0; i < width; i++ {
		b[width-1-i] = byte(v >> (8 * uint(i)))
	}
}

func vf28GetUint(b []byte, width int) uint64 {
	var v uint64
	for i := 0; i < width; i++ {
		v = v<<8 | uint64(b[i])
	}
	return v
}

// vf28Children names the children a structural shape can address, in the recorder's layout.
func vf28ChildList(tree []*vf28Node, parent string, site string) (*[]*vf28Node, []int) {
	part, track := vf28Site(site)
	var list *[]*vf28Node
	var names []string
	switch parent {
	case "top":
		list = &tree
		names = []string{"ftyp#1", "moov#1", "moof#1", "mdat#1", "moof#2", "mdat#2"}
	case "moov":
		n := vf28Path(tree, "moov")
		list = &n.Children
		names = []string{"mvhd#1", "trak#1", "trak#2", "mvex#1", "udta#1"}
	case "moof":
		n := vf28Path(tree, "moof#"+strconv.Itoa(part))
		list = &n.Children
		names = []string{"mfhd#1", "traf#1", "traf#2"}
	case "traf":
		n := vf28Path(tree, "moof#"+strconv.Itoa(part), "traf#"+strconv.Itoa(track))
		list = &n.Children
		names = []string{"tfhd#1", "tfdt#1", "trun#1"}
	}
	var idx []int
	for _, nm := range names {
		i := strings.Index(nm, "#")
		nth, _ := strconv.Atoi(nm[i+1:])
		found := -1
		for j, c := range *list {
			if c.Type == nm[:i] {
				nth--
				if nth == 0 {
					found = j
					break
				}
			}
		}
		idx = append(idx, found)
	}
	return list, idx
}

// vf28Apply builds the corrupted file of a non-foreign shape from the bytes of a recorded segment.
func vf28Apply(t testing.TB, good []byte, sh vf28Shape) []byte {
	tree := vf28Parse(good)
	if !bytes.Equal(vf28Serialize(tree), good) {
		t.Fatalf("box tree does not round-trip")
	}
	switch sh.Kind {
	case "field":
		n := vf28Locate(tree, sh.Box, sh.Site)
		if n == nil {
			t.Fatalf("shape %+v: box not found in the recorded segment", sh)
		}
		if sh.Field == "size" {
			n.Size = uint32(vf28Value(uint64(n.Size), 4, sh.Val))
			n.ForceSz = true
			return vf28Serialize(tree)
		}
		off, w, ok := vf28FieldAt(n, sh.Box, sh.Field)
		if !ok || n.Children != nil || off+w > len(n.Payload) {
			t.Fatalf("shape %+v: field not found (payload %d bytes)", sh, len(n.Payload))
		}
		vf28PutUint(n.Payload[off:], w, vf28Value(vf28GetUint(n.Payload[off:], w), w, sh.Val))
		return vf28Serialize(tree)
	case "drop", "dup", "swap":
		list, idx := vf28ChildList(tree, sh.Parent, sh.Site)
		if sh.A < 1 || sh.A > len(idx) || idx[sh.A-1] < 0 {
			t.Fatalf("shape %+v: child not found", sh)
		}
		a := idx[sh.A-1]
		switch sh.Kind {
		case "drop":
			*list = append(append([]*vf28Node{}, (*list)[:a]...), (*list)[a+1:]...)
		case "dup":
			nl := append([]*vf28Node{}, (*list)[:a+1]...)
			nl = append(nl, (*list)[a])
			*list = append(nl, (*list)[a+1:]...)
		case "swap":
			if sh.B < 1 || sh.B > len(idx) || idx[sh.B-1] < 0 {
				t.Fatalf("shape %+v: child not found", sh)
			}
			b := idx[sh.B-1]
			(*list)[a], (*list)[b] = (*list)[b], (*list)[a]
		}
		if sh.Parent == "top" {
			return vf28Serialize(*list)
		}
		return vf28Serialize(tree)
	}
	t.Fatalf("unknown shape %+v", sh)
	return nil
}

// vf28Foreign puts a non-segment where the segment file is expected. It returns false when the
// kind cannot be built here (reported, not silently skipped).
func vf28Foreign(t testing.TB, fp string, what string, good *vf27Seg, elsewhere string) {
	must := func(err error) {
		if err != nil {
			t.Fatal(err)
		}
	}
	switch what {
	case "empty":
		must(os.WriteFile(fp, nil, 0o644))
	case "text":
		must(os.WriteFile(fp, []byte(strings.Repeat("this is not a recording\n", 40)), 0o644))
	case "mpegts":
		b := make([]byte, 188*20)
		for i := 0; i < len(b); i += 188 {
			b[i], b[i+1], b[i+2], b[i+3] = 0x47, 0x40, 0x00, 0x10
		}
		must(os.WriteFile(fp, b, 0o644))
	case "plainmp4":
		// ftyp + moov without mvex + one mdat: a non-fragmented MP4
		tree := vf28Parse(good.Bytes)
		moov := vf28Path(tree, "moov")
		var ch []*vf28Node
		for _, c := range moov.Children {
			if c.Type != "mvex" && c.Type != "udta" {
				ch = append(ch, c)
			}
		}
		moov.Children = ch
		must(os.WriteFile(fp, vf28Serialize([]*vf28Node{vf28Path(tree, "ftyp"), moov,
			{Type: "mdat", Payload: bytes.Repeat([]byte{0x11}, 200)}}), 0o644))
	case "zeros4k":
		must(os.WriteFile(fp, make([]byte, 4096), 0o644))
	case "ftyponly":
		must(os.WriteFile(fp, good.Bytes[:good.Boxes[1].Off], 0o644))
	case "headeronly":
		must(os.WriteFile(fp, good.Bytes[:good.Units[1]], 0o644))
	case "dir":
		must(os.MkdirAll(filepath.Join(fp, "inner"), 0o755))
		must(os.WriteFile(filepath.Join(fp, "inner", "x.bin"), []byte("x"), 0o644))
	case "symlink_dir":
		must(os.MkdirAll(elsewhere, 0o755))
		must(os.Symlink(elsewhere, fp))
	case "symlink_missing":
		must(os.Symlink(filepath.Join(elsewhere, "does-not-exist"), fp))
	case "symlink_loop":
		must(os.Symlink(fp, fp))
	case "symlink_good":
		must(os.MkdirAll(elsewhere, 0o755))
		must(os.WriteFile(filepath.Join(elsewhere, "good.bin"), good.Bytes, 0o644))
		must(os.Symlink(filepath.Join(elsewhere, "good.bin"), fp))
	case "unreadable":
		must(os.WriteFile(fp, good.Bytes, 0o000))
	default:
		t.Fatalf("unknown foreign kind %s", what)
	}
}

// vf28Run: three segments of the standard "va" stream.
func vf28Run() vf27Run {
	run := vf27Run{Video: true, Audio: true, PartMs: 100, SegMs: 300}
	var us []vf27Unit
	for ms := int64(0); ms < 920; ms += 40 {
		us = append(us, vf27Unit{Track: 1, T: 20000 + ms, NTP: ms, Sync: ms%320 == 0})
	}
	for ms := int64(0); ms < 920; ms += 30 {
		us = append(us, vf27Unit{Track: 2, T: 20000 + ms, NTP: ms, Sync: true})
	}
	// stable order by time
	for i := 1; i < len(us); i++ {
		for j := i; j > 0 && us[j].T < us[j-1].T; j-- {
			us[j], us[j-1] = us[j-1], us[j]
		}
	}
	for i := range us {
		us[i].ID = i + 1
	}
	run.Units = us
	return run
}

// ---------------------------------------------------------------------------- inconsistent neighbours

// vf28Pool: first segments of three real recordings (H264+AAC, H264 only, AAC only) and the
// second segment of the first one.
type vf28Pool struct {
	va1, va2, v1, a1 *vf27Seg
}

func vf28SegName(cdir string, ms int64) string {
	return recordstore.Path{Start: vf27Base.Add(time.Duration(ms) * time.Millisecond), Path: "cam"}.Encode(
		recordstore.PathAddExtension(filepath.Join(cdir, "%path/%Y-%m-%d_%H-%M-%S-%f"), conf.RecordFormatFMP4))
}

// vf28Mtxi rewrites (or removes) the mtxi box of a segment header.
func vf28Mtxi(t testing.TB, b []byte, remove bool, stream []byte, number uint64, dtsNs int64) []byte {
	tree := vf28Parse(b)
	moov := vf28Path(tree, "moov")
	if remove {
		var ch []*vf28Node
		for _, c := range moov.Children {
			if c.Type != "udta" {
				ch = append(ch, c)
			}
		}
		moov.Children = ch
		return vf28Serialize(tree)
	}
	n := vf28Path(tree, "moov", "udta", "mtxi")
	if n == nil || len(n.Payload) < 44 {
		t.Fatalf("no mtxi box in the recorded segment")
	}
	if stream != nil {
		copy(n.Payload[4:20], stream)
		binary.BigEndian.PutUint64(n.Payload[20:], number)
		binary.BigEndian.PutUint64(n.Payload[28:], uint64(dtsNs))
	}
	return vf28Serialize(tree)
}

func vf28MtxiOf(t testing.TB, b []byte) (stream []byte, number uint64, dtsNs int64) {
	n := vf28Path(vf28Parse(b), "moov", "udta", "mtxi")
	if n == nil || len(n.Payload) < 44 {
		t.Fatalf("no mtxi box in the recorded segment")
	}
	return append([]byte{}, n.Payload[4:20]...), binary.BigEndian.Uint64(n.Payload[20:]), int64(binary.BigEndian.Uint64(n.Payload[28:]))
}

// vf28PairDir builds the directory of a "pair" shape and returns the requests for it and the
// instant of the second file.
func vf28PairDir(t testing.TB, cdir string, sh vf28Shape, pool vf28Pool) ([]string, int64) {
	var a, b *vf27Seg
	bBytes := []byte(nil)
	switch sh.Incons {
	case "extra_track":
		a, b = pool.v1, pool.va1
	case "missing_track":
		a, b = pool.va1, pool.v1
	case "codec":
		a, b = pool.v1, pool.a1
	case "timescale":
		a, b = pool.va1, pool.va2
		tree := vf28Parse(b.Bytes)
		n := vf28Path(tree, "moov", "trak#2", "mdia", "mdhd")
		if n == nil {
			t.Fatalf("no second track in the recorded segment")
		}
		binary.BigEndian.PutUint32(n.Payload[12:], 44100)
		bBytes = vf28Serialize(tree)
	default:
		t.Fatalf("unknown inconsistency %s", sh.Incons)
	}
	if bBytes == nil {
		bBytes = b.Bytes
	}
	aBytes := a.Bytes
	aStart := int64(0)
	bStart := aStart + a.HdrDur
	cStart := bStart + b.HdrDur
	stream, number, dts := vf28MtxiOf(t, aBytes)
	cBytes := bBytes
	switch sh.Mtxi {
	case "continuing":
		cBytes = vf28Mtxi(t, bBytes, false, stream, number+2, dts+(a.HdrDur+b.HdrDur)*1000000)
		bBytes = vf28Mtxi(t, bBytes, false, stream, number+1, dts+a.HdrDur*1000000)
	case "not_continuing":
		// the second file keeps the stream id of the recording it comes from; the third continues the second
		bs, bn, bd := vf28MtxiOf(t, bBytes)
		if string(bs) == string(stream) {
			bs[0] ^= 0xff
			bBytes = vf28Mtxi(t, bBytes, false, bs, bn, bd)
		}
		cBytes = vf28Mtxi(t, bBytes, false, bs, bn+1, bd+b.HdrDur*1000000)
	case "absent":
		bBytes = vf28Mtxi(t, bBytes, true, nil, 0, 0)
		cBytes = bBytes
	case "absent_both":
		aBytes = vf28Mtxi(t, aBytes, true, nil, 0, 0)
		bBytes = vf28Mtxi(t, bBytes, true, nil, 0, 0)
		cBytes = bBytes
	default:
		t.Fatalf("unknown mtxi relation %s", sh.Mtxi)
	}
	write := func(ms int64, data []byte) {
		if err := os.WriteFile(vf28SegName(cdir, ms), data, 0o644); err != nil {
			t.Fatal(err)
		}
	}
	write(aStart, aBytes)
	write(bStart, bBytes)
	if sh.Files == 3 {
		write(cStart, cBytes)
	}
	at := func(ms int64) string {
		return strings.ReplaceAll(vf27Base.Add(time.Duration(ms)*time.Millisecond).Format(time.RFC3339Nano), "+", "%2B")
	}
	return []string{
		"/list?path=cam",
		"/list?path=cam&start=" + at(aStart+50) + "&end=" + at(bStart+100),
		"/get?path=cam&duration=3600&start=" + at(aStart-1000),
		fmt.Sprintf("/get?path=cam&duration=%dms&start=%s", a.HdrDur+150, at(aStart+50)),
		"/get?path=cam&duration=3600&format=mp4&start=" + at(aStart-1000),
		"/get?path=cam&duration=0.2&start=" + at(bStart+10),
		fmt.Sprintf("/get?path=cam&duration=%dms&format=mp4&start=%s", a.HdrDur+150, at(aStart+50)),
	}, bStart
}

type vf28Resp struct {
	Status int    `json:"status"`
	Kind   string `json:"kind"` // data | error | other
	Bytes  int    `json:"bytes"`
	Err    string `json:"err"`
}

// TestVerif_C28_Corrupt records what the playback server answers for every shape.
func TestVerif_C28_Corrupt(t *testing.T) {
	out := verifrt.NewOut(t)
	defer out.Close()
	keep := verifrt.ParamS("KEEPDIR", "")
	if keep == "" {
		keep = t.TempDir()
	}
	dir := t.TempDir()
	files := vf27Record(t, dir, "cam", vf28Run())
	if len(files) != 3 {
		t.Fatalf("expected 3 segments, the recorder made %v", files)
	}
	segs := []*vf27Seg{vf27LoadSeg(t, files[0]), vf27LoadSeg(t, files[1]), vf27LoadSeg(t, files[2])}
	mid := segs[1]
	if len(mid.Parts) < 2 {
		t.Fatalf("the middle segment has %d parts", len(mid.Parts))
	}
	pool := vf28Pool{va1: segs[0], va2: segs[1]}
	{
		vrun := vf28Run()
		vrun.Audio = false
		var us []vf27Unit
		for _, u := range vrun.Units {
			if u.Track == 1 {
				us = append(us, u)
			}
		}
		vrun.Units = us
		vf := vf27Record(t, t.TempDir(), "cam", vrun)
		arun, _ := vf27StdRun("a", 20000)
		af := vf27Record(t, t.TempDir(), "cam", arun)
		if len(vf) == 0 || len(af) == 0 {
			t.Fatalf("recordings for the inconsistent-neighbour shapes failed")
		}
		pool.v1, pool.a1 = vf27LoadSeg(t, vf[0]), vf27LoadSeg(t, af[0])
		for _, sg := range []*vf27Seg{pool.v1, pool.a1} {
			if sg.LayoutErr != "" || sg.HdrDur == 0 {
				t.Fatalf("unexpected recording %s: %s", sg.Path, sg.LayoutErr)
			}
		}
	}
	child := &vf27Child{t: t}
	if mb := verifrt.Param("AS_MB", 0); mb > 0 {
		child.Env = []string{"VERIF_CHILD_AS_MB=" + strconv.Itoa(mb)}
	}
	defer child.stop()

	at := func(ms int64) string {
		return vf27Base.Add(time.Duration(ms) * time.Millisecond).Format(time.RFC3339Nano)
	}
	urls := []string{
		"/list?path=cam",
		"/list?path=cam&start=" + at(mid.StartMs+50) + "&end=" + at(mid.StartMs+200),
		"/get?path=cam&duration=3600&start=" + at(-1000),
		"/get?path=cam&duration=0.2&start=" + at(mid.StartMs+50),
		"/get?path=cam&duration=3600&format=mp4&start=" + at(-1000),
	}
	for i := range urls {
		urls[i] = strings.ReplaceAll(urls[i], "+", "%2B")
	}

	manifest, err := os.Create(filepath.Join(keep, "manifest.ndjson"))
	if err != nil {
		t.Fatal(err)
	}
	defer manifest.Close()

	n := 0
	verifrt.ForEachCase(t, func(raw []byte) {
		var c vf28Case
		verifrt.Decode(t, raw, &c)
		cdir := filepath.Join(keep, fmt.Sprintf("c%05d", c.ID))
		if err := os.MkdirAll(filepath.Join(cdir, "cam"), 0o755); err != nil {
			t.Fatal(err)
		}
		if c.NB == "between" {
			for _, sg := range []*vf27Seg{segs[0], segs[2]} {
				if err := os.WriteFile(filepath.Join(cdir, "cam", filepath.Base(sg.Path)), sg.Bytes, 0o644); err != nil {
					t.Fatal(err)
				}
			}
		}
		fp := filepath.Join(cdir, "cam", filepath.Base(mid.Path))
		size := -1
		caseURLs := urls
		startMs := mid.StartMs
		if c.Sh.Kind == "pair" {
			caseURLs, startMs = vf28PairDir(t, cdir, c.Sh, pool)
		} else if c.Sh.Kind == "foreign" {
			vf28Foreign(t, fp, c.Sh.What, mid, filepath.Join(cdir, "elsewhere"))
		} else {
			b := vf28Apply(t, mid.Bytes, c.Sh)
			size = len(b)
			if err := os.WriteFile(fp, b, 0o644); err != nil {
				t.Fatal(err)
			}
		}
		rs, alive, crash := child.do(vf27Req{Dir: cdir, URLs: caseURLs})
		resps := []vf28Resp{}
		if alive {
			for _, h := range rs.HTTP {
				r := vf28Resp{Status: h.Status, Bytes: len(h.Body), Err: h.Err}
				switch {
				case h.Err != "":
					r.Kind = "none"
				case h.Status == 200:
					r.Kind = "data"
				case json.Valid(h.Body) && vf27ErrOf(h.Body) != "":
					r.Kind = "error"
					r.Err = vf27ErrOf(h.Body)
				default:
					r.Kind = "other"
				}
				resps = append(resps, r)
			}
		}
		out.Emit(map[string]any{"id": c.ID, "sh": c.Sh, "nb": c.NB, "size": size,
			"obs": map[string]any{"alive": alive, "panic": crash, "responses": resps}})
		mb, _ := json.Marshal(map[string]any{"id": c.ID, "dir": cdir, "start": at(startMs)})
		manifest.Write(append(mb, '\n'))
		n++
	})
	out.Emit(map[string]any{"id": -1, "meta": true, "cases": n, "childStarts": child.Starts, "childCrashes": child.Crashes})
}
