package auth

// Verification harness for C02, JWKS cache under concurrency (spec/auth/JwksConc.tla). Injected by
// /verif through -overlay. Schedules of the model (start a call, start RefreshJWTJWKS, rotate the
// authority's keys, let the answer of a download arrive) are replayed on ONE real auth.Manager against
// a JWKS endpoint that HOLDS every download until the schedule releases it. After each action the
// driver waits until every goroutine it started is in a state it can observe: returned, waiting for
// its download (the endpoint handler was reached), or parked on the manager's mutex (stack dump,
// whitelisted wait states, confirmed over several dumps). Events get logical time stamps; the test
// records them and TLC (TraceJwksConc.tla) judges every decision.

import (
	"context"
	"net"
	"net/http"
	"net/http/httptest"
	"regexp"
	"runtime"
	"sort"
	"strings"
	"sync"
	"testing"
	"time"

	"github.com/MicahParks/jwkset"

	"github.com/bluenviron/mediamtx/internal/conf"
	"github.com/bluenviron/mediamtx/internal/verifrt"
)

type vf02cDownload struct {
	id      int
	release chan struct{}
	open    bool   // not released yet
	owner   string // the caller it was attributed to
}

type vf02cWorld struct {
	mu     sync.Mutex
	clock  int
	events []map[string]any
	stage  int
	sets   map[int][]byte
	ids    map[int][]string
	dls    []*vf02cDownload
	closed chan struct{}
}

func (w *vf02cWorld) event(e map[string]any) int {
	w.mu.Lock()
	defer w.mu.Unlock()
	w.clock++
	e["t"] = w.clock
	w.events = append(w.events, e)
	return w.clock
}

// the JWKS endpoint: the answer is fixed when the request arrives (the authority's key set of that
// instant) and held until the download is released
func (w *vf02cWorld) handler(rw http.ResponseWriter, _ *http.Request) {
	w.mu.Lock()
	w.clock++
	d := &vf02cDownload{id: len(w.dls) + 1, release: make(chan struct{}), open: true}
	w.dls = append(w.dls, d)
	body := w.sets[w.stage]
	w.events = append(w.events, map[string]any{"e": "dl", "id": d.id, "set": w.ids[w.stage], "t": w.clock})
	w.mu.Unlock()
	select {
	case <-d.release:
	case <-w.closed:
	}
	rw.Header().Set("Content-Type", "application/json")
	rw.Write(body) //nolint:errcheck
}

type vf02cResult struct {
	ok  bool
	err string
}

func vf02cAuth(m *Manager, token string) vf02cResult {
	var aerr *Error
	panicked, msg := verifrt.Catch(func() {
		_, aerr = m.Authenticate(&Request{
			Action:      conf.AuthActionRead,
			Path:        "cam",
			Protocol:    ProtocolRTSP,
			Credentials: &Credentials{Token: token},
			IP:          net.ParseIP("127.0.0.1"),
		})
	})
	switch {
	case panicked:
		return vf02cResult{false, "panic: " + msg}
	case aerr != nil:
		s := aerr.Wrapped.Error()
		if len(s) > 100 {
			s = s[:100]
		}
		return vf02cResult{false, s}
	}
	return vf02cResult{true, ""}
}

// the goroutines of the schedule; their names are looked up in stack dumps
func vf02cCallerA(m *Manager, token string, res chan<- vf02cResult) { res <- vf02cAuth(m, token) }
func vf02cCallerB(m *Manager, token string, res chan<- vf02cResult) { res <- vf02cAuth(m, token) }
func vf02cRefresher(m *Manager, done chan<- struct{}) {
	m.RefreshJWTJWKS()
	close(done)
}

var (
	vf02cHeader   = regexp.MustCompile(`^goroutine \d+ \[([^\],]+)`)
	vf02cStackBuf = make([]byte, 1<<20)
)

// vf02cParked: which of the named goroutines are parked in a lock operation of the manager's mutex.
// Only the wait states of sync.RWMutex / sync.Mutex lock operations count (whitelist) and the lock
// frame must be on the stack.
func vf02cParked(fns []string) map[string]bool {
	out := map[string]bool{}
	buf := vf02cStackBuf[:runtime.Stack(vf02cStackBuf, true)]
	for _, g := range strings.Split(string(buf), "\n\n") {
		for _, fn := range fns {
			if !strings.Contains(g, fn+"(") {
				continue
			}
			h := vf02cHeader.FindStringSubmatch(g)
			if h == nil {
				continue
			}
			switch h[1] {
			case "sync.RWMutex.Lock", "sync.RWMutex.RLock", "sync.Mutex.Lock":
				if strings.Contains(g, "sync.(*RWMutex).Lock") || strings.Contains(g, "sync.(*RWMutex).RLock") {
					out[fn] = true
				}
			}
		}
	}
	return out
}

type vf02cCaller struct {
	name     string
	fn       string
	inflight bool
	key      string
	res      chan vf02cResult
	dl       *vf02cDownload
	parked   int // consecutive dumps that showed it parked
}

func TestVerif_C02_JwksConc(t *testing.T) {
	out := verifrt.NewOutFile(t, verifrt.ParamS("CONCOUT", ""))
	defer out.Close()
	e := vf02NewEnv(t)
	defer e.close()
	e.perms = map[string][]conf.AuthInternalUserPermission{"all": {{Action: conf.AuthActionRead}}}

	w := &vf02cWorld{stage: 1, sets: map[int][]byte{}, ids: map[int][]string{1: {"k1"}, 2: {"k1", "k2"}, 3: {"k2"}},
		closed: make(chan struct{})}
	keys := map[string]any{"k1": e.k1, "k2": e.k2}
	for stage, ids := range w.ids {
		store := jwkset.NewMemoryStorage()
		for _, kid := range ids {
			jwk, err := jwkset.NewJWKFromKey(keys[kid], jwkset.JWKOptions{Metadata: jwkset.JWKMetadataOptions{KID: kid}})
			if err != nil {
				t.Fatal(err)
			}
			if err = store.KeyWrite(context.Background(), jwk); err != nil {
				t.Fatal(err)
			}
		}
		js, err := store.JSONPublic(context.Background())
		if err != nil {
			t.Fatal(err)
		}
		w.sets[stage] = js
	}
	srv := httptest.NewServer(http.HandlerFunc(w.handler))
	srv.Config.ErrorLog = nil
	defer srv.Close()
	defer close(w.closed)

	tok := func(sig string) string {
		d := vf02Tok{K: "jwt", Sig: sig, Time: "ok", Form: "array", Perms: "all"}
		d.Aud.Form = "none"
		return e.mint(d)
	}
	tokens := map[string]string{"k1": tok("rs256"), "k2": tok("es256")}

	// ONE manager for every schedule
	m := &Manager{Method: conf.AuthMethodJWT, JWTJWKS: srv.URL + "/jwks.json", JWTClaimKey: vf02ClaimKey,
		ReadTimeout: 120 * time.Second}

	callers := map[string]*vf02cCaller{
		"A": {name: "A", fn: "auth.vf02cCallerA"},
		"B": {name: "B", fn: "auth.vf02cCallerB"},
	}
	var refDone chan struct{}
	refInflight, refParked, refT0 := false, 0, 0

	// settle: wait until every started goroutine has returned, waits for its download, or is parked
	settle := func() {
		deadline := time.Now().Add(90 * time.Second)
		for {
			// returns
			for _, c := range callers {
				if !c.inflight {
					continue
				}
				select {
				case r := <-c.res:
					c.inflight, c.dl, c.parked = false, nil, 0
					w.event(map[string]any{"e": "aret", "c": c.name, "k": c.key, "ok": r.ok, "err": r.err})
				default:
				}
			}
			if refInflight {
				select {
				case <-refDone:
					refInflight, refParked = false, 0
					w.event(map[string]any{"e": "rret", "t0": refT0})
				default:
				}
			}
			// one stack dump for all goroutines still running
			var fns []string
			for _, c := range callers {
				if c.inflight && c.dl == nil { // a call downloads at most once: afterwards it can only return
					fns = append(fns, c.fn)
				}
			}
			if refInflight {
				fns = append(fns, "auth.vf02cRefresher")
			}
			parked := map[string]bool{}
			if len(fns) > 0 {
				parked = vf02cParked(fns)
			}
			// downloads that arrived at the endpoint belong to the calls that are neither parked nor waiting yet
			w.mu.Lock()
			for _, d := range w.dls {
				if d.owner != "" {
					continue
				}
				for _, name := range []string{"A", "B"} {
					c := callers[name]
					if c.inflight && c.dl == nil && !parked[c.fn] {
						d.owner, c.dl = name, d
						break
					}
				}
			}
			w.mu.Unlock()
			stable := true
			for _, c := range callers {
				if !c.inflight || (c.dl != nil && c.dl.open) {
					continue
				}
				if c.dl != nil { // its download was released: it is about to return
					stable = false
					continue
				}
				if parked[c.fn] {
					c.parked++
				} else {
					c.parked = 0
				}
				if c.parked < 5 {
					stable = false
				}
			}
			if refInflight {
				if parked["auth.vf02cRefresher"] {
					refParked++
				} else {
					refParked = 0
				}
				if refParked < 5 {
					stable = false
				}
			}
			if stable {
				return
			}
			if time.Now().After(deadline) {
				t.Fatalf("vf02c: the goroutines of the schedule did not reach an observable state")
			}
			runtime.Gosched()
			time.Sleep(50 * time.Microsecond)
		}
	}
	release := func(c *vf02cCaller) {
		w.mu.Lock()
		d := c.dl
		d.open = false
		w.mu.Unlock()
		w.event(map[string]any{"e": "release", "c": c.name, "id": d.id})
		close(d.release)
	}

	verifrt.ForEachCaseFile(t, verifrt.ParamS("CONCCASES", ""), func(raw []byte) {
		var wk struct {
			Walk int `json:"walk"`
			Acts []struct {
				A string `json:"a"`
				C string `json:"c"`
				K string `json:"k"`
			} `json:"acts"`
		}
		verifrt.Decode(t, raw, &wk)
		// initial state of the model
		m.mutex.Lock()
		m.jwksLastRefresh = time.Time{}
		m.jwtKeyFunc = nil
		m.mutex.Unlock()
		w.mu.Lock()
		w.stage, w.clock, w.events, w.dls = 1, 0, nil, nil
		w.mu.Unlock()

		for _, a := range wk.Acts {
			switch a.A {
			case "auth":
				c := callers[a.C]
				if c.inflight {
					w.event(map[string]any{"e": "skip", "a": a.A, "c": a.C})
					continue
				}
				c.inflight, c.key, c.dl, c.parked = true, a.K, nil, 0
				c.res = make(chan vf02cResult, 1)
				w.event(map[string]any{"e": "astart", "c": c.name, "k": a.K})
				if c.name == "A" {
					go vf02cCallerA(m, tokens[a.K], c.res)
				} else {
					go vf02cCallerB(m, tokens[a.K], c.res)
				}
			case "refresh":
				if refInflight {
					w.event(map[string]any{"e": "skip", "a": a.A})
					continue
				}
				refInflight, refParked = true, 0
				refDone = make(chan struct{})
				refT0 = w.event(map[string]any{"e": "rstart"})
				go vf02cRefresher(m, refDone)
			case "rotate":
				w.mu.Lock()
				w.stage = w.stage%3 + 1
				w.mu.Unlock()
				w.event(map[string]any{"e": "rotate"})
			case "release":
				c := callers[a.C]
				if !c.inflight || c.dl == nil || !c.dl.open {
					w.event(map[string]any{"e": "skip", "a": a.A, "c": a.C})
					continue
				}
				release(c)
			default:
				t.Fatalf("vf02c: unknown action %q", a.A)
			}
			settle()
		}
		// end of the schedule: let everything finish
		for {
			pending := false
			for _, name := range []string{"A", "B"} {
				if c := callers[name]; c.inflight && c.dl != nil && c.dl.open {
					release(c)
					pending = true
				}
			}
			settle()
			idle := !callers["A"].inflight && !callers["B"].inflight && !refInflight
			if !pending && idle {
				break
			}
			if !pending && !(callers["A"].dl != nil && callers["A"].dl.open) && !(callers["B"].dl != nil && callers["B"].dl.open) {
				t.Fatalf("vf02c: goroutines are parked although no download is in flight (deadlock)")
			}
		}
		w.mu.Lock()
		evs := append([]map[string]any{}, w.events...)
		w.mu.Unlock()
		sort.SliceStable(evs, func(i, j int) bool { return evs[i]["t"].(int) < evs[j]["t"].(int) })
		out.Emit(map[string]any{"walk": wk.Walk, "events": evs})
	})
}
