package auth

// Verification harness for C02 (http and jwt authentication). Injected by /verif through -overlay.
// The test replays TLC's cases on the real auth.Manager against a local auth server / JWKS
// server and records what the manager answered and what the auth server saw; verdicts are
// taken by TLC (TraceAuthExt.tla).

import (
	"context"
	"crypto/ecdsa"
	"crypto/elliptic"
	"crypto/rand"
	"crypto/rsa"
	"crypto/x509"
	"encoding/base64"
	"encoding/json"
	"encoding/pem"
	"io"
	"net"
	"net/http"
	"net/http/httptest"
	"strings"
	"sync"
	"testing"
	"time"

	"github.com/MicahParks/jwkset"
	"github.com/golang-jwt/jwt/v5"

	"github.com/bluenviron/mediamtx/internal/conf"
	"github.com/bluenviron/mediamtx/internal/verifrt"
)

type vf02Tok struct {
	K   string `json:"k"`
	S   string `json:"s"`
	Sig string `json:"sig"`
	Iss string `json:"iss"`
	Aud struct {
		Form string   `json:"form"`
		V    []string `json:"v"`
	} `json:"aud"`
	Time  string `json:"time"`
	Form  string `json:"form"`
	Perms string `json:"perms"`
}

type vf02Case struct {
	Prof string `json:"prof"`
	Cfg  struct {
		Method string `json:"method"`
		Iss    string `json:"iss"`
		Aud    string `json:"aud"`
		Excl   string `json:"excl"`
		Inq    string `json:"inq"`
	} `json:"cfg"`
	Rq    vf02Rq   `json:"rq"`    // single request
	Steps []vf02Rq `json:"steps"` // or a sequence handled by one manager
	Beh   string   `json:"beh"`
}

type vf02Rq struct {
	Action   string    `json:"action"`
	Path     string    `json:"path"`
	Protocol string    `json:"protocol"`
	User     string    `json:"user"`
	Pass     vf02Tok   `json:"pass"`
	Token    vf02Tok   `json:"token"`
	Qtok     []vf02Tok `json:"qtok"`
	Qjwt     []vf02Tok `json:"qjwt"`
	Qextra   bool      `json:"qextra"`
	IP       string    `json:"ip"`
}

type vf02Body struct {
	IP       string `json:"ip"`
	User     string `json:"user"`
	Password string `json:"password"`
	Token    string `json:"token"`
	Action   string `json:"action"`
	Path     string `json:"path"`
	Protocol string `json:"protocol"`
	Query    string `json:"query"`
}

type vf02LogEntry struct {
	Method string   `json:"method"`
	URL    string   `json:"url"`
	Status int      `json:"status"` // 0: never answered
	Body   vf02Body `json:"body"`
}

type vf02Env struct {
	t        testing.TB
	perms    map[string][]conf.AuthInternalUserPermission
	k1, k3   *rsa.PrivateKey
	k2       *ecdsa.PrivateKey
	k1PubPEM []byte
	jwks     *httptest.Server
	authSrv  *httptest.Server
	done     chan struct{}
	mu       sync.Mutex
	log      []vf02LogEntry
	mintMu   sync.Mutex
	minted   map[string]string
	managers map[string]*Manager
	now      time.Time
}

const vf02ClaimKey = "mediamtx_permissions"

func vf02NewEnv(t testing.TB) *vf02Env {
	e := &vf02Env{t: t, done: make(chan struct{}), minted: map[string]string{}, managers: map[string]*Manager{},
		now: time.Now()}
	var err error
	if e.k1, err = rsa.GenerateKey(rand.Reader, 2048); err != nil {
		t.Fatal(err)
	}
	if e.k3, err = rsa.GenerateKey(rand.Reader, 2048); err != nil {
		t.Fatal(err)
	}
	if e.k2, err = ecdsa.GenerateKey(elliptic.P256(), rand.Reader); err != nil {
		t.Fatal(err)
	}
	der, err := x509.MarshalPKIXPublicKey(&e.k1.PublicKey)
	if err != nil {
		t.Fatal(err)
	}
	e.k1PubPEM = pem.EncodeToMemory(&pem.Block{Type: "PUBLIC KEY", Bytes: der})

	// JWKS server with k1 (RSA) and k2 (EC)
	store := jwkset.NewMemoryStorage()
	for kid, key := range map[string]any{"k1": e.k1, "k2": e.k2} {
		jwk, err2 := jwkset.NewJWKFromKey(key, jwkset.JWKOptions{Metadata: jwkset.JWKMetadataOptions{KID: kid}})
		if err2 != nil {
			t.Fatal(err2)
		}
		if err2 = store.KeyWrite(context.Background(), jwk); err2 != nil {
			t.Fatal(err2)
		}
	}
	jwksJSON, err := store.JSONPublic(context.Background())
	if err != nil {
		t.Fatal(err)
	}
	e.jwks = httptest.NewServer(http.HandlerFunc(func(w http.ResponseWriter, _ *http.Request) {
		w.Header().Set("Content-Type", "application/json")
		w.Write(jwksJSON) //nolint:errcheck
	}))

	// auth server: behaviour chosen by the URL path /b/<behaviour>; logs what it receives and answers
	e.authSrv = httptest.NewServer(http.HandlerFunc(func(w http.ResponseWriter, r *http.Request) {
		raw, _ := io.ReadAll(r.Body)
		entry := vf02LogEntry{Method: r.Method, URL: r.URL.Path}
		if len(raw) != 0 {
			if json.Unmarshal(raw, &entry.Body) != nil {
				entry.Body = vf02Body{User: "<unparsable body>"}
			}
		}
		answer := func(status int, loc string, body string) {
			entry.Status = status
			e.mu.Lock()
			e.log = append(e.log, entry)
			e.mu.Unlock()
			if loc != "" {
				w.Header().Set("Location", loc)
			}
			w.WriteHeader(status)
			if body != "" {
				w.Write([]byte(body)) //nolint:errcheck
			}
		}
		switch strings.TrimPrefix(r.URL.Path, "/b/") {
		case "s200", "final":
			answer(200, "", "")
		case "s204":
			answer(204, "", "")
		case "s299":
			answer(299, "", "")
		case "s300":
			answer(300, "", "choices")
		case "s301noloc":
			answer(301, "", "")
		case "s301get":
			answer(301, "/b/final", "")
		case "s303get":
			answer(303, "/b/final", "")
		case "s307post":
			answer(307, "/b/final", "")
		case "s401":
			answer(401, "", "nope")
		case "s500":
			answer(500, "", "")
		case "bycred": // an authority that decides by the credentials the POST carries
			if entry.Body.Token == "T1" || (entry.Body.User == "alice" && entry.Body.Password == "P1") {
				answer(200, "", "")
			} else {
				answer(401, "", "nope")
			}
		case "hang":
			e.mu.Lock()
			e.log = append(e.log, entry) // status 0: never answered
			e.mu.Unlock()
			select {
			case <-r.Context().Done():
			case <-e.done:
			}
		default:
			answer(404, "", "")
		}
	}))
	return e
}

func (e *vf02Env) close() {
	close(e.done)
	e.authSrv.Close()
	e.jwks.Close()
}

func (e *vf02Env) permList(name string) []conf.AuthInternalUserPermission {
	p, ok := e.perms[name]
	if !ok {
		e.t.Fatalf("vf02: unknown permission list %q", name)
	}
	return p
}

// mint produces the token string of a descriptor; the class fixes how it is signed.
func (e *vf02Env) mint(d vf02Tok) string {
	switch d.K {
	case "none":
		return ""
	case "text":
		return d.S
	}
	kb, _ := json.Marshal(d)
	e.mintMu.Lock()
	defer e.mintMu.Unlock()
	if s, ok := e.minted[string(kb)]; ok {
		return s
	}
	if d.Sig == "garbage" {
		return "not.a.jwt"
	}
	claims := jwt.MapClaims{"sub": "subj", "jti": "1"}
	if d.Iss != "" {
		claims["iss"] = d.Iss
	}
	switch d.Aud.Form {
	case "str":
		claims["aud"] = d.Aud.V[0]
	case "list":
		l := d.Aud.V
		if l == nil {
			l = []string{}
		}
		claims["aud"] = l
	}
	hour := int64(3600)
	now := e.now.Unix()
	switch d.Time {
	case "ok":
		claims["exp"], claims["nbf"], claims["iat"] = now+2*hour, now-hour, now-hour
	case "expired":
		claims["exp"], claims["nbf"], claims["iat"] = now-hour, now-2*hour, now-2*hour
	case "notyet":
		claims["exp"], claims["nbf"], claims["iat"] = now+2*hour, now+hour, now-hour
	case "exponly":
		claims["exp"] = now + 2*hour
	case "noexp":
	default:
		e.t.Fatalf("vf02: unknown time class %q", d.Time)
	}
	type jsPerm struct {
		Action string `json:"action"`
		Path   string `json:"path"`
	}
	list := []jsPerm{}
	for _, p := range e.permList(d.Perms) {
		list = append(list, jsPerm{string(p.Action), p.Path})
	}
	switch d.Form {
	case "array":
		claims[vf02ClaimKey] = list
	case "string":
		b, _ := json.Marshal(list)
		claims[vf02ClaimKey] = string(b)
	case "missing":
	case "number":
		claims[vf02ClaimKey] = 5
	case "object":
		claims[vf02ClaimKey] = map[string]string{"action": "read", "path": ""}
	case "badstring":
		claims[vf02ClaimKey] = "not json"
	case "null":
		claims[vf02ClaimKey] = nil
	case "stringnumber":
		claims[vf02ClaimKey] = "5"
	default:
		e.t.Fatalf("vf02: unknown claim form %q", d.Form)
	}

	sign := func(m jwt.SigningMethod, kid string, key any) string {
		tok := jwt.NewWithClaims(m, claims)
		if kid != "" {
			tok.Header[jwkset.HeaderKID] = kid
		}
		s, err := tok.SignedString(key)
		if err != nil {
			e.t.Fatalf("vf02: cannot sign: %v", err)
		}
		return s
	}
	var s string
	switch d.Sig {
	case "rs256":
		s = sign(jwt.SigningMethodRS256, "k1", e.k1)
	case "es256":
		s = sign(jwt.SigningMethodES256, "k2", e.k2)
	case "nokid":
		s = sign(jwt.SigningMethodRS256, "", e.k1)
	case "otherkey":
		s = sign(jwt.SigningMethodRS256, "k1", e.k3)
	case "unknownkid":
		s = sign(jwt.SigningMethodRS256, "k3", e.k3)
	case "nokidother":
		s = sign(jwt.SigningMethodRS256, "", e.k3)
	case "algnone":
		s = sign(jwt.SigningMethodNone, "k1", jwt.UnsafeAllowNoneSignatureType)
	case "hmacpub":
		s = sign(jwt.SigningMethodHS256, "k1", e.k1PubPEM)
	case "nosig":
		s = sign(jwt.SigningMethodRS256, "k1", e.k1)
		s = s[:strings.LastIndexByte(s, '.')+1]
	case "tampered":
		// a correctly signed token whose payload is changed afterwards (the signature is kept)
		s = sign(jwt.SigningMethodRS256, "k1", e.k1)
		parts := strings.Split(s, ".")
		payload, err := base64.RawURLEncoding.DecodeString(parts[1])
		if err != nil {
			e.t.Fatal(err)
		}
		var m map[string]any
		if err = json.Unmarshal(payload, &m); err != nil {
			e.t.Fatal(err)
		}
		m["sub"] = "somebody else"
		payload, _ = json.Marshal(m)
		parts[1] = base64.RawURLEncoding.EncodeToString(payload)
		s = strings.Join(parts, ".")
	default:
		e.t.Fatalf("vf02: unknown signature class %q", d.Sig)
	}
	e.minted[string(kb)] = s
	return s
}

// manager returns THE manager of a configuration: every case (and every step of every sequence)
// with the same configuration is decided by the same instance, in this one process.
func (e *vf02Env) manager(c *vf02Case) *Manager {
	k := c.Cfg.Method + "|" + c.Cfg.Iss + "|" + c.Cfg.Aud + "|" + c.Cfg.Excl + "|" + c.Cfg.Inq + "|" + c.Beh
	e.mintMu.Lock()
	defer e.mintMu.Unlock()
	if m, ok := e.managers[k]; ok {
		return m
	}
	var m *Manager
	if c.Cfg.Method == "jwt" {
		m = &Manager{
			Method:      conf.AuthMethodJWT,
			JWTJWKS:     e.jwks.URL + "/jwks.json",
			JWTClaimKey: vf02ClaimKey,
			JWTExclude:  e.permList(c.Cfg.Excl),
			JWTIssuer:   c.Cfg.Iss,
			JWTAudience: c.Cfg.Aud,
			ReadTimeout: 20 * time.Second,
		}
		switch c.Cfg.Inq {
		case "true":
			v := true
			m.JWTInHTTPQuery = &v
		case "false":
			v := false
			m.JWTInHTTPQuery = &v
		}
	} else {
		m = &Manager{
			Method:      conf.AuthMethodHTTP,
			HTTPAddress: e.authSrv.URL + "/b/" + c.Beh,
			HTTPExclude: e.permList(c.Cfg.Excl),
			ReadTimeout: 20 * time.Second,
		}
		switch c.Beh {
		case "hang":
			m.ReadTimeout = 100 * time.Millisecond // the server never answers: any timeout gives the same outcome
		case "refused":
			m.HTTPAddress = "http://127.0.0.1:1/b/refused" // nothing listens on the tcpmux port
		}
	}
	e.managers[k] = m
	return m
}

// decide hands one request to the manager; returns the observation and the strings that were used.
func (e *vf02Env) decide(m *Manager, rq *vf02Rq) (map[string]any, map[string]any) {
	rend := map[string]any{"user": rq.User, "pass": e.mint(rq.Pass), "token": e.mint(rq.Token), "ip": rq.IP}
	var parts []string
	if rq.Qextra {
		parts = append(parts, "x=1")
	}
	qtok, qjwt := []string{}, []string{}
	for _, d := range rq.Qtok {
		qtok = append(qtok, e.mint(d))
		parts = append(parts, "token="+qtok[len(qtok)-1])
	}
	for _, d := range rq.Qjwt {
		qjwt = append(qjwt, e.mint(d))
		parts = append(parts, "jwt="+qjwt[len(qjwt)-1])
	}
	query := strings.Join(parts, "&")
	rend["qtok"], rend["qjwt"], rend["query"] = qtok, qjwt, query

	user, aerr := m.Authenticate(&Request{
		Action:               conf.AuthAction(rq.Action),
		Path:                 rq.Path,
		Query:                query,
		Protocol:             Protocol(rq.Protocol),
		Credentials:          &Credentials{User: rq.User, Pass: rend["pass"].(string), Token: rend["token"].(string)},
		IP:                   net.ParseIP(rq.IP),
		EnableAskCredentials: true,
	})
	obs := map[string]any{"ok": aerr == nil, "user": user, "ask": aerr != nil && aerr.AskCredentials}
	if aerr != nil {
		msg := aerr.Wrapped.Error()
		if len(msg) > 100 {
			msg = msg[:100]
		}
		obs["err"] = msg
	}
	return obs, rend
}

func (e *vf02Env) resetLog() {
	e.mu.Lock()
	e.log = nil
	e.mu.Unlock()
}

func (e *vf02Env) takeLog() []vf02LogEntry {
	e.mu.Lock()
	defer e.mu.Unlock()
	return append([]vf02LogEntry{}, e.log...)
}

func (e *vf02Env) stepRec(c *vf02Case, obs, rend map[string]any, log []vf02LogEntry) map[string]any {
	st := map[string]any{"obs": obs, "log": log}
	if c.Cfg.Method == "http" {
		st["r"] = rend
	}
	return st
}

type vf02Seq struct {
	id  int
	raw json.RawMessage
	c   *vf02Case
}

// spec -> impl -> spec: every case of the bounded model is executed by the real manager.
// Single cases and the steps of sequence cases of one configuration share one Manager; sequence
// cases are run serially (twice) and then again concurrently from several goroutines.
func TestVerif_C02_Replay(t *testing.T) {
	out := verifrt.NewOut(t)
	defer out.Close()
	e := vf02NewEnv(t)
	defer e.close()
	var seqs []vf02Seq
	verifrt.ForEachCase(t, func(raw []byte) {
		var line struct {
			ID    int `json:"id"`
			Perms map[string][]struct {
				Action string `json:"action"`
				Path   string `json:"path"`
			} `json:"perms"`
			C json.RawMessage `json:"c"`
		}
		verifrt.Decode(t, raw, &line)
		if line.Perms != nil {
			e.perms = map[string][]conf.AuthInternalUserPermission{}
			for name, l := range line.Perms {
				pl := []conf.AuthInternalUserPermission{}
				for _, p := range l {
					pl = append(pl, conf.AuthInternalUserPermission{Action: conf.AuthAction(p.Action), Path: p.Path})
				}
				e.perms[name] = pl
			}
			return
		}
		c := &vf02Case{}
		verifrt.Decode(t, line.C, c)
		m := e.manager(c)
		if c.Steps == nil {
			e.resetLog()
			obs, rend := e.decide(m, &c.Rq)
			rec := e.stepRec(c, obs, rend, e.takeLog())
			rec["id"], rec["c"], rec["mode"] = line.ID, line.C, "single"
			out.Emit(rec)
			return
		}
		seqs = append(seqs, vf02Seq{line.ID, line.C, c})
		for rep := 0; rep < 2; rep++ {
			steps := []map[string]any{}
			for i := range c.Steps {
				e.resetLog()
				obs, rend := e.decide(m, &c.Steps[i])
				steps = append(steps, e.stepRec(c, obs, rend, e.takeLog()))
			}
			out.Emit(map[string]any{"id": line.ID, "c": line.C, "mode": "serial", "steps": steps})
		}
	})

	// the same sequences again, several at a time from concurrent goroutines on the shared managers.
	// The auth server's log of a batch is shared: a POST is attributed to a step by what it carries.
	const batch = 8
	for lo := 0; lo < len(seqs); lo += batch {
		hi := lo + batch
		if hi > len(seqs) {
			hi = len(seqs)
		}
		e.resetLog()
		type result struct {
			obs, rend []map[string]any
		}
		results := make([][]result, hi-lo)
		var wg sync.WaitGroup
		for k := lo; k < hi; k++ {
			wg.Add(1)
			go func(k int) {
				defer wg.Done()
				sq := seqs[k]
				m := e.manager(sq.c)
				for rep := 0; rep < 3; rep++ {
					var r result
					for i := range sq.c.Steps {
						obs, rend := e.decide(m, &sq.c.Steps[i])
						r.obs = append(r.obs, obs)
						r.rend = append(r.rend, rend)
					}
					results[k-lo] = append(results[k-lo], r)
				}
			}(k)
		}
		wg.Wait()
		log := e.takeLog()
		for k := lo; k < hi; k++ {
			sq := seqs[k]
			shared := log
			if sq.c.Cfg.Method != "http" {
				shared = []vf02LogEntry{}
			}
			for _, r := range results[k-lo] {
				steps := []map[string]any{}
				for i := range r.obs {
					// only entries with this step's user and password can carry the step (cuts the record size)
					mine := []vf02LogEntry{}
					for _, le := range shared {
						if le.Body.User == r.rend[i]["user"] && le.Body.Password == r.rend[i]["pass"] {
							mine = append(mine, le)
						}
					}
					steps = append(steps, e.stepRec(sq.c, r.obs[i], r.rend[i], mine))
				}
				out.Emit(map[string]any{"id": sq.id, "c": sq.raw, "mode": "concurrent", "steps": steps})
			}
		}
	}
}
