package auth

// Verification harness for C41 (TLS fingerprint pinning) through auth.Manager: the http method's
// auth server (HTTPFingerprint) and the JWKS download (JWTJWKSFingerprint). Injected by /verif
// through -overlay. The test records whether the manager got through; verdicts are taken by TLC.

import (
	"context"
	"crypto/ecdsa"
	"crypto/elliptic"
	"crypto/rand"
	"crypto/sha256"
	"crypto/tls"
	"crypto/x509"
	"crypto/x509/pkix"
	"encoding/hex"
	"encoding/json"
	"encoding/pem"
	"math/big"
	"net"
	"net/http"
	"net/http/httptest"
	"os"
	"path/filepath"
	"strings"
	"sync/atomic"
	"testing"
	"time"

	"github.com/MicahParks/jwkset"
	"github.com/golang-jwt/jwt/v5"

	"github.com/bluenviron/mediamtx/internal/conf"
	"github.com/bluenviron/mediamtx/internal/verifrt"
)

type vf41PKI struct {
	caDER   []byte
	leafDER map[string][]byte
	certs   map[string]tls.Certificate
}

func vf41NewPKI(t testing.TB) *vf41PKI {
	p := &vf41PKI{leafDER: map[string][]byte{}, certs: map[string]tls.Certificate{}}
	newKey := func() *ecdsa.PrivateKey {
		k, err := ecdsa.GenerateKey(elliptic.P256(), rand.Reader)
		if err != nil {
			t.Fatal(err)
		}
		return k
	}
	serial := int64(1000)
	now := time.Now()
	caKey := newKey()
	caTpl := &x509.Certificate{
		SerialNumber: big.NewInt(1), Subject: pkix.Name{CommonName: "verif C41 CA"},
		NotBefore: now.Add(-24 * time.Hour), NotAfter: now.Add(240 * time.Hour),
		IsCA: true, BasicConstraintsValid: true, KeyUsage: x509.KeyUsageCertSign | x509.KeyUsageDigitalSignature,
	}
	var err error
	if p.caDER, err = x509.CreateCertificate(rand.Reader, caTpl, caTpl, &caKey.PublicKey, caKey); err != nil {
		t.Fatal(err)
	}
	caCert, err := x509.ParseCertificate(p.caDER)
	if err != nil {
		t.Fatal(err)
	}
	leaf := func(name string, selfSigned bool, notBefore, notAfter time.Time, wrongHost bool) {
		serial++
		key := newKey()
		tpl := &x509.Certificate{
			SerialNumber: big.NewInt(serial), Subject: pkix.Name{CommonName: name},
			NotBefore: notBefore, NotAfter: notAfter,
			KeyUsage: x509.KeyUsageDigitalSignature, ExtKeyUsage: []x509.ExtKeyUsage{x509.ExtKeyUsageServerAuth},
			BasicConstraintsValid: true,
		}
		if wrongHost {
			tpl.DNSNames = []string{"other.example"}
		} else {
			tpl.IPAddresses = []net.IP{net.ParseIP("127.0.0.1")}
		}
		var der []byte
		var err2 error
		var chain [][]byte
		if selfSigned {
			der, err2 = x509.CreateCertificate(rand.Reader, tpl, tpl, &key.PublicKey, key)
			chain = [][]byte{der}
		} else {
			der, err2 = x509.CreateCertificate(rand.Reader, tpl, caCert, &key.PublicKey, caKey)
			chain = [][]byte{der, p.caDER}
		}
		if err2 != nil {
			t.Fatal(err2)
		}
		p.leafDER[name] = der
		p.certs[name] = tls.Certificate{Certificate: chain, PrivateKey: key}
	}
	ok0, ok1 := now.Add(-time.Hour), now.Add(24*time.Hour)
	leaf("Avalid", false, ok0, ok1, false)
	leaf("Aself", true, ok0, ok1, false)
	leaf("Aexpired", false, now.Add(-48*time.Hour), now.Add(-24*time.Hour), false)
	leaf("Awronghost", false, ok0, ok1, true)
	leaf("Bvalid", false, ok0, ok1, false)
	leaf("Bself", true, ok0, ok1, false)
	p.leafDER["CA"] = p.caDER

	// certificates that imitate Avalid (none has its SHA-256)
	pinned, err := x509.ParseCertificate(p.leafDER["Avalid"])
	if err != nil {
		t.Fatal(err)
	}
	imitate := func(name string, serial *big.Int, key *ecdsa.PrivateKey, signer *x509.Certificate, signerKey *ecdsa.PrivateKey,
		extra [][]byte) {
		tpl := &x509.Certificate{
			SerialNumber: serial, Subject: pinned.Subject, NotBefore: ok0, NotAfter: ok1,
			KeyUsage: x509.KeyUsageDigitalSignature, ExtKeyUsage: []x509.ExtKeyUsage{x509.ExtKeyUsageServerAuth},
			BasicConstraintsValid: true, IPAddresses: []net.IP{net.ParseIP("127.0.0.1")},
		}
		parent := signer
		if parent == nil { // self-signed
			parent, signerKey = tpl, key
		}
		der, err2 := x509.CreateCertificate(rand.Reader, tpl, parent, &key.PublicKey, signerKey)
		if err2 != nil {
			t.Fatal(err2)
		}
		p.leafDER[name] = der
		p.certs[name] = tls.Certificate{Certificate: append([][]byte{der}, extra...), PrivateKey: key}
	}
	// a look-alike CA: the subject DN of the real CA, another key
	fakeKey := newKey()
	fakeTpl := *caTpl
	fakeDER, err := x509.CreateCertificate(rand.Reader, &fakeTpl, &fakeTpl, &fakeKey.PublicKey, fakeKey)
	if err != nil {
		t.Fatal(err)
	}
	fakeCA, err := x509.ParseCertificate(fakeDER)
	if err != nil {
		t.Fatal(err)
	}
	imitate("AfSame", pinned.SerialNumber, newKey(), fakeCA, fakeKey, [][]byte{fakeDER}) // same issuer DN + serial
	imitate("AfSubj", big.NewInt(7001), newKey(), nil, nil, nil)                         // same subject / SANs
	imitate("Areissued", big.NewInt(7002), p.certs["Avalid"].PrivateKey.(*ecdsa.PrivateKey), caCert, caKey,
		[][]byte{p.caDER}) // same key and subject, another serial
	fs, _ := x509.ParseCertificate(p.leafDER["AfSame"])
	if string(fs.RawIssuer) != string(pinned.RawIssuer) || fs.SerialNumber.Cmp(pinned.SerialNumber) != 0 {
		t.Fatal("vf41: the forged certificate does not carry the issuer DN and serial of the pinned one")
	}

	// the harness process trusts the harness CA (and nothing else): "chain valid" is meaningful
	dir := t.TempDir()
	f := filepath.Join(dir, "roots.pem")
	if err = os.WriteFile(f, pem.EncodeToMemory(&pem.Block{Type: "CERTIFICATE", Bytes: p.caDER}), 0o600); err != nil {
		t.Fatal(err)
	}
	empty := filepath.Join(dir, "nocerts")
	os.Mkdir(empty, 0o700) //nolint:errcheck
	os.Setenv("SSL_CERT_FILE", f)
	os.Setenv("SSL_CERT_DIR", empty)
	return p
}

func (p *vf41PKI) hexOf(name string) string {
	h := sha256.Sum256(p.leafDER[name])
	return hex.EncodeToString(h[:])
}

func (p *vf41PKI) fingerprint(of, form string) string {
	if form == "empty" {
		return ""
	}
	h := p.hexOf(of)
	switch form {
	case "lower":
		return h
	case "upper":
		return strings.ToUpper(h)
	case "mixed":
		b := []byte(h)
		for i := range b {
			if i%2 == 0 {
				b[i] = strings.ToUpper(string(b[i]))[0]
			}
		}
		return string(b)
	case "short16":
		return h[:16]
	case "long":
		return h + "00"
	case "colons":
		u := strings.ToUpper(h)
		parts := []string{}
		for i := 0; i < len(u); i += 2 {
			parts = append(parts, u[i:i+2])
		}
		return strings.Join(parts, ":")
	case "space":
		return " " + h
	case "garbage":
		return strings.Repeat("zy", 32)
	}
	panic("vf41: unknown fingerprint form " + form)
}

func TestVerif_C41_Auth(t *testing.T) {
	out := verifrt.NewOut(t)
	defer out.Close()
	pki := vf41NewPKI(t)

	// signing key of the JWT authority; its public key is what the JWKS endpoint serves
	jkey, err := ecdsa.GenerateKey(elliptic.P256(), rand.Reader)
	if err != nil {
		t.Fatal(err)
	}
	store := jwkset.NewMemoryStorage()
	jwk, err := jwkset.NewJWKFromKey(jkey, jwkset.JWKOptions{Metadata: jwkset.JWKMetadataOptions{KID: "k"}})
	if err != nil {
		t.Fatal(err)
	}
	if err = store.KeyWrite(context.Background(), jwk); err != nil {
		t.Fatal(err)
	}
	jwksJSON, err := store.JSONPublic(context.Background())
	if err != nil {
		t.Fatal(err)
	}
	tok := jwt.NewWithClaims(jwt.SigningMethodES256, jwt.MapClaims{
		"exp":   time.Now().Add(2 * time.Hour).Unix(),
		"perms": []map[string]string{{"action": "read", "path": ""}},
	})
	tok.Header[jwkset.HeaderKID] = "k"
	token, err := tok.SignedString(jkey)
	if err != nil {
		t.Fatal(err)
	}

	var served atomic.Int64
	servers := map[string]*httptest.Server{}
	defer func() {
		for _, s := range servers {
			s.Close()
		}
	}()
	server := func(cert, ver string) *httptest.Server {
		k := cert + "/" + ver
		if s, ok := servers[k]; ok {
			return s
		}
		s := httptest.NewUnstartedServer(http.HandlerFunc(func(w http.ResponseWriter, r *http.Request) {
			served.Add(1)
			if r.Method == http.MethodGet { // JWKS download
				w.Header().Set("Content-Type", "application/json")
				w.Write(jwksJSON) //nolint:errcheck
				return
			}
			w.WriteHeader(http.StatusOK) // auth server: grants everything it is asked
		}))
		s.TLS = &tls.Config{Certificates: []tls.Certificate{pki.certs[cert]}}
		if ver == "tls12" {
			s.TLS.MaxVersion = tls.VersionTLS12
		} else {
			s.TLS.MinVersion = tls.VersionTLS13
		}
		s.Config.ErrorLog = nil
		s.StartTLS()
		servers[k] = s
		return s
	}

	type fpTok struct {
		Of   string `json:"of"`
		Form string `json:"form"`
	}
	type caseT struct {
		Via    string   `json:"via"`
		Served string   `json:"served"`
		Ver    string   `json:"ver"`
		FP     fpTok    `json:"fp"`    // single connection
		Steps  []fpTok  `json:"steps"` // or a sequence of connections to the same server in this process
		Certs  []string `json:"certs"` // or a sequence on ONE manager while the server changes its certificate
	}
	var swapCert atomic.Value
	swapServer := func(ver string) *httptest.Server {
		k := "swap/" + ver
		if s, ok := servers[k]; ok {
			return s
		}
		s := httptest.NewUnstartedServer(http.HandlerFunc(func(w http.ResponseWriter, r *http.Request) {
			served.Add(1)
			if r.Method == http.MethodGet {
				w.Header().Set("Content-Type", "application/json")
				w.Write(jwksJSON) //nolint:errcheck
				return
			}
			w.WriteHeader(http.StatusOK)
		}))
		cfg := &tls.Config{GetCertificate: func(*tls.ClientHelloInfo) (*tls.Certificate, error) {
			c := pki.certs[swapCert.Load().(string)]
			return &c, nil
		}}
		if ver == "tls12" {
			cfg.MaxVersion = tls.VersionTLS12
		} else {
			cfg.MinVersion = tls.VersionTLS13
		}
		s.Config.ErrorLog = nil
		// (httptest.StartTLS installs its own certificate, which takes precedence when no SNI is sent)
		s.Listener = tls.NewListener(s.Listener, cfg)
		s.Start()
		s.URL = "https://" + s.Listener.Addr().String()
		servers[k] = s
		return s
	}
	// decisions of ONE manager pinned to a certificate while the server changes what it presents
	swapRun := func(c *caseT) []map[string]any {
		srv := swapServer(c.Ver)
		fp := pki.fingerprint(c.FP.Of, c.FP.Form)
		var m *Manager
		switch c.Via {
		case "authhttp":
			m = &Manager{Method: conf.AuthMethodHTTP, HTTPAddress: srv.URL + "/auth", HTTPFingerprint: fp,
				ReadTimeout: 20 * time.Second}
		case "jwks":
			m = &Manager{Method: conf.AuthMethodJWT, JWTJWKS: srv.URL + "/jwks", JWTJWKSFingerprint: fp,
				JWTClaimKey: "perms", ReadTimeout: 20 * time.Second}
		default:
			t.Fatalf("vf41: unknown via %q", c.Via)
		}
		steps := []map[string]any{}
		for _, cert := range c.Certs {
			swapCert.Store(cert)
			m.RefreshJWTJWKS() // the next decision has to download the key set again
			before := served.Load()
			_, aerr := m.Authenticate(&Request{
				Action:      conf.AuthActionRead,
				Path:        "cam",
				Protocol:    ProtocolRTSP,
				Credentials: &Credentials{User: "u", Token: token},
				IP:          net.ParseIP("127.0.0.1"),
			})
			reached := served.Load() - before
			if (aerr == nil) != (reached == 1) {
				t.Fatalf("vf41: manager answered %v but the server handled %d request(s)", aerr, reached)
			}
			rec := map[string]any{"success": aerr == nil, "eqfold": strings.EqualFold(fp, pki.hexOf(cert)), "fptext": fp,
				"served": cert}
			if aerr != nil {
				msg := aerr.Wrapped.Error()
				if !strings.Contains(msg, "fingerprint") && !strings.Contains(msg, "certificate") && !strings.Contains(msg, "x509") {
					t.Fatalf("vf41: rejected for a reason that is not a certificate decision: %v", msg)
				}
				if len(msg) > 160 {
					msg = msg[:160]
				}
				rec["err"] = msg
			}
			steps = append(steps, rec)
		}
		return steps
	}

	// one decision of a manager configured with the fingerprint: it has to connect to the TLS server
	connect := func(c *caseT, f fpTok) map[string]any {
		srv := server(c.Served, c.Ver)
		fp := pki.fingerprint(f.Of, f.Form)
		var m *Manager
		switch c.Via {
		case "authhttp":
			m = &Manager{Method: conf.AuthMethodHTTP, HTTPAddress: srv.URL + "/auth", HTTPFingerprint: fp,
				ReadTimeout: 20 * time.Second}
		case "jwks":
			m = &Manager{Method: conf.AuthMethodJWT, JWTJWKS: srv.URL + "/jwks", JWTJWKSFingerprint: fp,
				JWTClaimKey: "perms", ReadTimeout: 20 * time.Second}
		default:
			t.Fatalf("vf41: unknown via %q", c.Via)
		}
		before := served.Load()
		_, aerr := m.Authenticate(&Request{
			Action:      conf.AuthActionRead,
			Path:        "cam",
			Protocol:    ProtocolRTSP,
			Credentials: &Credentials{User: "u", Token: token},
			IP:          net.ParseIP("127.0.0.1"),
		})
		reached := served.Load() - before
		rec := map[string]any{"success": aerr == nil,
			"eqfold": strings.EqualFold(fp, pki.hexOf(c.Served)), "fptext": fp, "reached": reached}
		if (aerr == nil) != (reached == 1) {
			t.Fatalf("vf41: manager answered %v but the server handled %d request(s)", aerr, reached)
		}
		if aerr != nil {
			msg := aerr.Wrapped.Error()
			if !strings.Contains(msg, "fingerprint") && !strings.Contains(msg, "certificate") && !strings.Contains(msg, "x509") {
				t.Fatalf("vf41: rejected for a reason that is not a certificate decision: %v", msg)
			}
			if len(msg) > 160 {
				msg = msg[:160]
			}
			rec["err"] = msg
		}
		return rec
	}

	verifrt.ForEachCase(t, func(raw []byte) {
		var line struct {
			ID int             `json:"id"`
			C  json.RawMessage `json:"c"`
		}
		verifrt.Decode(t, raw, &line)
		var c caseT
		verifrt.Decode(t, line.C, &c)
		if c.Certs != nil {
			out.Emit(map[string]any{"id": line.ID, "c": line.C, "steps": swapRun(&c)})
			return
		}
		if c.Steps == nil {
			rec := connect(&c, c.FP)
			rec["id"], rec["c"] = line.ID, line.C
			out.Emit(rec)
			return
		}
		// the manager builds a new http client with MakeConfig(fingerprint) for every decision and reads
		// the answer, so a later decision with another pin could resume the earlier TLS session
		steps := []map[string]any{}
		for _, f := range c.Steps {
			steps = append(steps, connect(&c, f))
		}
		out.Emit(map[string]any{"id": line.ID, "c": line.C, "steps": steps})
	})
}
