package auth

// Verification harness for C01, reload-during-authentication part (spec/auth/AuthReload.tla).
// Injected by /verif through -overlay. Schedules of the model are replayed on the real
// auth.Manager: while entry `at` of list A is being evaluated (the request's CustomVerifyFunc is
// called by the manager right then) a goroutine calls ReloadInternalUsers(B); the verifier goes on
// only when that goroutine has either returned or is seen parked on the manager's mutex. The test
// records the decision and the atoms of BOTH lists; TLC (TraceAuthInternal.tla, kind "reload")
// decides whether it is the statement's decision for one of them.

import (
	"regexp"
	"runtime"
	"strings"
	"testing"
	"time"

	"github.com/bluenviron/mediamtx/internal/conf"
	"github.com/bluenviron/mediamtx/internal/verifrt"
)

// vf01ReloadWorker is the goroutine that reloads the user list (found by name in stack dumps).
func vf01ReloadWorker(m *Manager, users []conf.AuthInternalUser, done chan struct{}) {
	m.ReloadInternalUsers(users)
	close(done)
}

var vf01GoroutineHeader = regexp.MustCompile(`^goroutine \d+ \[([^\],]+)`)

// vf01ParkedOnMutex reports whether the goroutine running fn is parked in a lock operation of a
// sync.RWMutex / sync.Mutex. Only these wait states count as blocked (a whitelist), and the frame
// of the lock operation must be on its stack.
var vf01StackBuf = make([]byte, 1<<20)

func vf01ParkedOnMutex(fn string) bool {
	buf := vf01StackBuf[:runtime.Stack(vf01StackBuf, true)]
	for _, g := range strings.Split(string(buf), "\n\n") {
		if !strings.Contains(g, fn+"(") {
			continue
		}
		m := vf01GoroutineHeader.FindStringSubmatch(g)
		if m == nil {
			return false
		}
		switch m[1] {
		case "sync.RWMutex.Lock", "sync.RWMutex.RLock", "sync.Mutex.Lock":
			return strings.Contains(g, "sync.(*RWMutex).Lock") || strings.Contains(g, "sync.(*RWMutex).RLock")
		}
		return false
	}
	return false
}

// vf01WaitReturnedOrParked waits until the goroutine running fn has finished (done closed: true)
// or is parked on a mutex in several consecutive stack dumps (false). No verdict depends on the
// time this takes; a goroutine that does neither is a harness problem.
func vf01WaitReturnedOrParked(t testing.TB, fn string, done chan struct{}) bool {
	deadline := time.Now().Add(60 * time.Second)
	parked := 0
	for {
		select {
		case <-done:
			return true
		default:
		}
		if vf01ParkedOnMutex(fn) {
			parked++
			if parked >= 3 {
				return false
			}
		} else {
			parked = 0
		}
		if time.Now().After(deadline) {
			t.Fatalf("vf01: goroutine %s neither returned nor parked on the mutex", fn)
		}
		runtime.Gosched()
		time.Sleep(50 * time.Microsecond)
	}
}

// entries of AuthReload.tla as configured users (request: publish by "bob", digest verifier)
func vf01ReloadEntry(tok string) vf01GenEntry {
	plain := func(s string) vf01GenCred { return vf01GenCred{text: s, enc: "plain", clear: s} }
	e := vf01GenEntry{perms: []vf01GenPerm{{action: "publish", kind: "empty"}}}
	switch tok {
	case "bob", "alice", "carol":
		e.user, e.pass = plain(tok), plain(tok+"pass")
	case "np": // bob's credentials, but no permission for the action: the verifier is not called
		e.user, e.pass = plain("bob"), plain("bobpass")
		e.perms = []vf01GenPerm{{action: "read", kind: "empty"}}
	default:
		panic("vf01: unknown entry token " + tok)
	}
	return e
}

func TestVerif_C01_ReloadReplay(t *testing.T) {
	out := verifrt.NewOutFile(t, verifrt.ParamS("RELOADOUT", ""))
	defer out.Close()
	v4 := vf01Addr{isV4: true, form: 4}
	v4.b[10], v4.b[11], v4.b[12], v4.b[15] = 0xff, 0xff, 127, 1

	verifrt.ForEachCaseFile(t, verifrt.ParamS("RELOADCASES", ""), func(raw []byte) {
		var sc struct {
			ID int      `json:"id"`
			A  []string `json:"a"`
			B  []string `json:"b"`
			At int      `json:"at"`
		}
		verifrt.Decode(t, raw, &sc)
		build := func(toks []string) ([]vf01GenEntry, []conf.AuthInternalUser) {
			es := []vf01GenEntry{}
			js := []vf01JSUser{}
			for _, tk := range toks {
				e := vf01ReloadEntry(tk)
				es = append(es, e)
				js = append(js, e.js())
			}
			return es, vf01Load(t, js)
		}
		esA, la := build(sc.A)
		esB, lb := build(sc.B)
		// the reload is requested when the verifier is called for entry `at` of A: the hook-th call
		hook := 0
		for _, tk := range sc.A[:sc.At] {
			if tk != "np" {
				hook++
			}
		}
		m := &Manager{Method: conf.AuthMethodInternal, InternalUsers: la}
		r := vf01GenReq{action: "publish", path: "mypath", user: "bob", addr: v4, ver: "pair", verU: "bob", verP: "bobpass"}
		req := vf01Request(r)
		pure := r.verifier()
		done := make(chan struct{})
		calls, requested, parked := 0, false, false
		req.CustomVerifyFunc = func(eu, ep string) bool {
			calls++
			if calls == hook && !requested {
				requested = true
				go vf01ReloadWorker(m, lb, done)
				parked = !vf01WaitReturnedOrParked(t, "auth.vf01ReloadWorker", done)
			}
			return pure(eu, ep)
		}
		user, aerr := m.Authenticate(req)
		if !requested {
			t.Fatalf("vf01: schedule %d: the verifier was called %d times, never reached call %d", sc.ID, calls, hook)
		}
		<-done // the reload completes once the scan has returned
		rec := vf01Record(t, "reload", sc.ID, esA, esB, r, user, aerr)
		rec["sched"] = map[string]any{"a": sc.A, "b": sc.B, "at": sc.At, "reload_waited_for_scan": parked,
			"verifier_calls": calls}
		out.Emit(rec)

		// afterwards the new list is the configured one
		r2 := r
		user, aerr = m.Authenticate(vf01Request(r2))
		rec = vf01Record(t, "call", sc.ID, esB, nil, r2, user, aerr)
		rec["sched"] = map[string]any{"a": sc.A, "b": sc.B, "at": sc.At, "after_reload": true}
		out.Emit(rec)
	})
}
