package auth

// Verification harness for C02, JWKS cache part (spec/auth/JwksCache.tla). Injected by /verif
// through -overlay. Walks over the model's state graph are executed on ONE real auth.Manager
// against a local JWKS endpoint whose published key set and health the walk controls; time is
// made to pass by ageing m.jwksLastRefresh (in-package), never by sleeping. The test records the
// decisions and what the endpoint saw; verdicts are taken by TLC (TraceJwksCache.tla).

import (
	"context"
	"net"
	"net/http"
	"net/http/httptest"
	"sync"
	"testing"
	"time"

	"github.com/MicahParks/jwkset"

	"github.com/bluenviron/mediamtx/internal/conf"
	"github.com/bluenviron/mediamtx/internal/verifrt"
)

type vf02jFetch struct {
	status int      // 0: connection dropped without an answer
	keyset bool     // the answer was a successful download: 200 with the published key set
	served []string // its key ids
}

type vf02jAuthority struct {
	mu     sync.Mutex
	stage  int
	health string
	log    []vf02jFetch
	sets   map[int][]byte
	ids    map[int][]string
}

func (a *vf02jAuthority) handler(w http.ResponseWriter, _ *http.Request) {
	a.mu.Lock()
	stage, health := a.stage, a.health
	a.mu.Unlock()
	note := func(f vf02jFetch) {
		a.mu.Lock()
		a.log = append(a.log, f)
		a.mu.Unlock()
	}
	switch health {
	case "ok":
		note(vf02jFetch{status: 200, keyset: true, served: a.ids[stage]})
		w.Header().Set("Content-Type", "application/json")
		w.Write(a.sets[stage]) //nolint:errcheck
	case "s500":
		note(vf02jFetch{status: 500})
		w.WriteHeader(http.StatusInternalServerError)
		w.Write([]byte("internal error")) //nolint:errcheck
	case "s503json": // what a gateway in front of the authority answers while it is unavailable
		note(vf02jFetch{status: 503})
		w.Header().Set("Content-Type", "application/json")
		w.WriteHeader(http.StatusServiceUnavailable)
		w.Write([]byte(`{"message":"Service Unavailable"}`)) //nolint:errcheck
	case "badjson":
		note(vf02jFetch{status: 200})               // answered 200, but not with a key set
		w.Write([]byte("<html>maintenance</html>")) //nolint:errcheck
	case "down":
		note(vf02jFetch{status: 0})
		if hj, ok := w.(http.Hijacker); ok {
			if c, _, err := hj.Hijack(); err == nil {
				c.Close()
			}
		}
	}
}

func TestVerif_C02_Jwks(t *testing.T) {
	out := verifrt.NewOutFile(t, verifrt.ParamS("JWKSOUT", ""))
	defer out.Close()
	maxAge := verifrt.Param("MAXAGE", 1)
	e := vf02NewEnv(t)
	defer e.close()
	e.perms = map[string][]conf.AuthInternalUserPermission{"all": {{Action: conf.AuthActionRead}}}

	// the authority: key sets of the rotation stages {k1} -> {k1,k2} -> {k2}
	au := &vf02jAuthority{stage: 1, health: "ok", sets: map[int][]byte{},
		ids: map[int][]string{1: {"k1"}, 2: {"k1", "k2"}, 3: {"k2"}}}
	keys := map[string]any{"k1": e.k1, "k2": e.k2}
	for stage, ids := range au.ids {
		store := jwkset.NewMemoryStorage()
		for _, kid := range ids {
			jwk, err := jwkset.NewJWKFromKey(keys[kid], jwkset.JWKOptions{Metadata: jwkset.JWKMetadataOptions{KID: kid}})
			if err != nil {
				t.Fatal(err)
			}
			if err = store.KeyWrite(context.Background(), jwk); err != nil {
				t.Fatal(err)
			}
		}
		js, err := store.JSONPublic(context.Background())
		if err != nil {
			t.Fatal(err)
		}
		au.sets[stage] = js
	}
	srv := httptest.NewServer(http.HandlerFunc(au.handler))
	srv.Config.ErrorLog = nil
	defer srv.Close()

	// tokens that are valid in every respect, signed by k1 / k2 / a key the authority never publishes
	tok := func(sig string) string {
		d := vf02Tok{K: "jwt", Sig: sig, Time: "ok", Form: "array", Perms: "all"}
		d.Aud.Form = "none"
		return e.mint(d)
	}
	tokens := map[string]string{"k1": tok("rs256"), "k2": tok("es256"), "k3": tok("unknownkid")}

	// ONE manager for every walk
	m := &Manager{Method: conf.AuthMethodJWT, JWTJWKS: srv.URL + "/jwks.json", JWTClaimKey: vf02ClaimKey,
		ReadTimeout: 20 * time.Second}
	step := jwksRefreshPeriod/time.Duration(maxAge) + time.Minute

	verifrt.ForEachCaseFile(t, verifrt.ParamS("JWKSCASES", ""), func(raw []byte) {
		var w struct {
			Walk int `json:"walk"`
			Acts []struct {
				A string `json:"a"`
				K string `json:"k"`
				H string `json:"h"`
			} `json:"acts"`
		}
		verifrt.Decode(t, raw, &w)
		// initial state of the model: nothing downloaded yet, stage 1, endpoint healthy
		m.mutex.Lock()
		m.jwksLastRefresh = time.Time{}
		m.jwtKeyFunc = nil
		m.mutex.Unlock()
		au.mu.Lock()
		au.stage, au.health, au.log = 1, "ok", nil
		au.mu.Unlock()

		steps := []map[string]any{}
		for _, a := range w.Acts {
			rec := map[string]any{"a": a.A, "k": a.K, "h": a.H, "ok": false, "fetch": "none", "served": []string{}}
			switch a.A {
			case "auth":
				au.mu.Lock()
				au.log = nil
				au.mu.Unlock()
				var aerr *Error
				panicked, msg := verifrt.Catch(func() {
					_, aerr = m.Authenticate(&Request{
						Action:      conf.AuthActionRead,
						Path:        "cam",
						Protocol:    ProtocolRTSP,
						Credentials: &Credentials{Token: tokens[a.K]},
						IP:          net.ParseIP("127.0.0.1"),
					})
				})
				rec["ok"] = !panicked && aerr == nil
				if panicked {
					rec["err"] = "panic: " + msg
				} else if aerr != nil {
					s := aerr.Wrapped.Error()
					if len(s) > 120 {
						s = s[:120]
					}
					rec["err"] = s
				}
				au.mu.Lock()
				for _, f := range au.log {
					if f.keyset {
						rec["fetch"], rec["served"] = "ok", f.served
					} else if rec["fetch"] == "none" {
						rec["fetch"] = "fail"
					}
				}
				rec["downloads"] = len(au.log)
				au.mu.Unlock()
			case "rotate":
				au.mu.Lock()
				au.stage = au.stage%3 + 1
				au.mu.Unlock()
			case "break":
				au.mu.Lock()
				au.health = a.H
				au.mu.Unlock()
			case "recover":
				au.mu.Lock()
				au.health = "ok"
				au.mu.Unlock()
			case "half": // time passes: one step of the cache period (period/MAXAGE, plus a minute)
				m.mutex.Lock()
				m.jwksLastRefresh = m.jwksLastRefresh.Add(-step)
				m.mutex.Unlock()
			case "refresh":
				m.RefreshJWTJWKS()
			default:
				t.Fatalf("vf02j: unknown action %q", a.A)
			}
			steps = append(steps, rec)
		}
		out.Emit(map[string]any{"walk": w.Walk, "steps": steps})
	})
}
