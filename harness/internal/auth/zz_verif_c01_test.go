package auth

// Verification harness for C01 (internal authentication). Injected by /verif through -overlay.
// The tests record what the real auth.Manager does; verdicts are taken by TLC / the check driver.

import (
	"bytes"
	"crypto/sha256"
	"encoding/base64"
	"encoding/json"
	"fmt"
	"math/rand/v2"
	"net"
	"os"
	"regexp"
	"strings"
	"sync"
	"sync/atomic"
	"testing"

	"golang.org/x/crypto/argon2"

	"github.com/bluenviron/mediamtx/internal/conf"
	"github.com/bluenviron/mediamtx/internal/conf/jsonwrapper"
	"github.com/bluenviron/mediamtx/internal/verifrt"
)

// ---------------------------------------------------------------- configuration texts

type vf01JSPerm struct {
	Action string `json:"action"`
	Path   string `json:"path"`
}

type vf01JSUser struct {
	User        string       `json:"user"`
	Pass        string       `json:"pass"`
	IPs         []string     `json:"ips"`
	Permissions []vf01JSPerm `json:"permissions"`
}

// vf01Load turns configuration text into the real conf types through the real decoder.
func vf01Load(t testing.TB, us []vf01JSUser) []conf.AuthInternalUser {
	for i := range us {
		if us[i].IPs == nil {
			us[i].IPs = []string{}
		}
		if us[i].Permissions == nil {
			us[i].Permissions = []vf01JSPerm{}
		}
	}
	b, err := json.Marshal(us)
	if err != nil {
		t.Fatal(err)
	}
	ret := []conf.AuthInternalUser{}
	if err = jsonwrapper.Unmarshal(b, &ret); err != nil {
		t.Fatalf("vf01: configuration %s rejected: %v", string(b), err)
	}
	return ret
}

// hashes are produced here, with crypto/sha256 and x/crypto/argon2, never with the code under test.
var vf01ArgonCache sync.Map

func vf01ArgonRaw(variant, clear, salt string, tcost, mem uint32) []byte {
	k := fmt.Sprintf("%s|%s|%s|%d|%d", variant, clear, salt, tcost, mem)
	if v, ok := vf01ArgonCache.Load(k); ok {
		return v.([]byte)
	}
	var h []byte
	if variant == "argon2id" {
		h = argon2.IDKey([]byte(clear), []byte(salt), tcost, mem, 1, 32)
	} else {
		h = argon2.Key([]byte(clear), []byte(salt), tcost, mem, 1, 32)
	}
	vf01ArgonCache.Store(k, h)
	return h
}

func vf01ArgonText(variant, clear, salt string, tcost, mem uint32) string {
	return fmt.Sprintf("argon2:$%s$v=19$m=%d,t=%d,p=1$%s$%s", variant, mem, tcost,
		base64.RawStdEncoding.EncodeToString([]byte(salt)),
		base64.RawStdEncoding.EncodeToString(vf01ArgonRaw(variant, clear, salt, tcost, mem)))
}

func vf01Sha256Text(clear string) string {
	h := sha256.Sum256([]byte(clear))
	return "sha256:" + base64.StdEncoding.EncodeToString(h[:])
}

// ---------------------------------------------------------------- replay of TLC's cases

type vf01Cred struct {
	Enc string `json:"enc"`
	V   string `json:"v"`
}

type vf01Entry struct {
	IPs   []string `json:"ips"`
	Perms []struct {
		Action string `json:"action"`
		Path   string `json:"path"`
	} `json:"perms"`
	User vf01Cred `json:"user"`
	Pass vf01Cred `json:"pass"`
}

type vf01Req struct {
	Action string `json:"action"`
	Path   string `json:"path"`
	User   string `json:"user"`
	Pass   string `json:"pass"`
	Token  string `json:"token"`
	IP     string `json:"ip"`
	Ask    bool   `json:"ask"`
	Ver    string `json:"ver"`
}

func vf01CredText(c vf01Cred, role string) string {
	switch c.Enc {
	case "plain":
		return c.V
	case "sha256":
		return vf01Sha256Text(c.V)
	case "argon2":
		if role == "user" {
			return vf01ArgonText("argon2id", c.V, "saltsalt", 1, 64)
		}
		return vf01ArgonText("argon2i", c.V, "12345678", 2, 32)
	}
	panic("vf01: unknown encoding " + c.Enc)
}

func vf01IP(tok string) net.IP {
	ip := net.ParseIP(tok)
	if ip == nil {
		panic("vf01: bad ip token " + tok)
	}
	if !strings.Contains(tok, ":") {
		return ip.To4() // 4-byte form
	}
	return ip // 16-byte form
}

func vf01Verifier(kind string) func(string, string) bool {
	switch kind {
	case "none":
		return nil
	case "acc":
		return func(eu, ep string) bool { return eu == "alice" && ep == "pw" }
	case "rej":
		return func(string, string) bool { return false }
	case "all":
		return func(string, string) bool { return true }
	}
	panic("vf01: unknown verifier " + kind)
}

// spec -> impl: every (user list, request) of the bounded model is decided by the real manager.
func TestVerif_C01_Replay(t *testing.T) {
	out := verifrt.NewOut(t)
	defer out.Close()
	var reqs []vf01Req
	verifrt.ForEachCase(t, func(raw []byte) {
		var c struct {
			ID    int         `json:"id"`
			Reqs  []vf01Req   `json:"reqs"`
			Users []vf01Entry `json:"users"`
		}
		verifrt.Decode(t, raw, &c)
		if c.Reqs != nil {
			reqs = c.Reqs
			return
		}
		js := make([]vf01JSUser, len(c.Users))
		for i, e := range c.Users {
			js[i] = vf01JSUser{User: vf01CredText(e.User, "user"), Pass: vf01CredText(e.Pass, "pass"), IPs: e.IPs}
			for _, p := range e.Perms {
				js[i].Permissions = append(js[i].Permissions, vf01JSPerm{Action: p.Action, Path: p.Path})
			}
		}
		m := &Manager{Method: conf.AuthMethodInternal, InternalUsers: vf01Load(t, js)}
		oks := make([]bool, len(reqs))
		asks := make([]bool, len(reqs))
		users := make([]string, len(reqs))
		for i, r := range reqs {
			user, aerr := m.Authenticate(&Request{
				Action:               conf.AuthAction(r.Action),
				Path:                 r.Path,
				Protocol:             ProtocolRTSP,
				Credentials:          &Credentials{User: r.User, Pass: r.Pass, Token: r.Token},
				IP:                   vf01IP(r.IP),
				CustomVerifyFunc:     vf01Verifier(r.Ver),
				EnableAskCredentials: r.Ask,
			})
			oks[i] = aerr == nil
			users[i] = user
			if aerr != nil {
				asks[i] = aerr.AskCredentials
			}
		}
		out.Emit(map[string]any{"id": c.ID, "ok": oks, "user": users, "ask": asks})
	})
}

// ---------------------------------------------------------------- random traces with independent atoms

// the harness's own matcher for a small grammar of regular expressions
type vf01Item struct {
	set      string // characters of the class; "" with any=true: '.'
	any, neg bool
	min, max int // max < 0: unbounded
}

type vf01Re struct {
	text     string
	bol, eol bool
	items    []vf01Item
	invalid  bool
}

func (it vf01Item) accepts(c byte) bool {
	if it.any {
		return true
	}
	in := strings.IndexByte(it.set, c) >= 0
	return in != it.neg
}

func vf01MatchHere(items []vf01Item, s string, pos int, eol bool) bool {
	if len(items) == 0 {
		return !eol || pos == len(s)
	}
	it := items[0]
	n := 0
	for pos+n < len(s) && (it.max < 0 || n < it.max) && it.accepts(s[pos+n]) {
		n++
	}
	for ; n >= it.min; n-- {
		if vf01MatchHere(items[1:], s, pos+n, eol) {
			return true
		}
	}
	return false
}

// found reports whether the expression is found in s (anywhere, unless anchored).
func (r *vf01Re) found(s string) bool {
	if r.invalid {
		return false
	}
	for start := 0; start <= len(s); start++ {
		if vf01MatchHere(r.items, s, start, r.eol) {
			return true
		}
		if r.bol {
			break
		}
	}
	return false
}

const vf01Alphabet = "abc12/"

func vf01GenRe(rnd *rand.Rand) *vf01Re {
	r := &vf01Re{}
	switch rnd.IntN(14) {
	case 0:
		r.invalid = true
		r.text = []string{"(", "[a", "*a", ")", "a(b"}[rnd.IntN(5)]
		return r
	case 1:
		return r // the empty expression
	}
	var sb strings.Builder
	if rnd.IntN(3) == 0 {
		r.bol = true
		sb.WriteByte('^')
	}
	n := 1 + rnd.IntN(3)
	for i := 0; i < n; i++ {
		it := vf01Item{min: 1, max: 1}
		switch rnd.IntN(8) {
		case 0:
			it.any = true
			sb.WriteByte('.')
		case 1:
			it.set = "ab"
			sb.WriteString("[ab]")
		case 2:
			it.set = "0123456789"
			sb.WriteString("[0-9]")
		case 3:
			it.set = "a/"
			it.neg = true
			sb.WriteString("[^a/]")
		default:
			c := vf01Alphabet[rnd.IntN(len(vf01Alphabet))]
			it.set = string(c)
			sb.WriteByte(c)
		}
		switch rnd.IntN(8) {
		case 0:
			it.min, it.max = 0, -1
			sb.WriteByte('*')
		case 1:
			it.min, it.max = 1, -1
			sb.WriteByte('+')
		case 2:
			it.min, it.max = 0, 1
			sb.WriteByte('?')
		}
		r.items = append(r.items, it)
	}
	if rnd.IntN(3) == 0 {
		r.eol = true
		sb.WriteByte('$')
	}
	r.text = sb.String()
	return r
}

func vf01RandStr(rnd *rand.Rand, max int) string {
	n := rnd.IntN(max + 1)
	b := make([]byte, n)
	for i := range b {
		b[i] = vf01Alphabet[rnd.IntN(len(vf01Alphabet))]
	}
	return string(b)
}

// a string in which the expression is found by construction, with random text around it
func (r *vf01Re) sample(rnd *rand.Rand) string {
	var sb strings.Builder
	if rnd.IntN(2) == 0 {
		sb.WriteString(vf01RandStr(rnd, 2))
	}
	for _, it := range r.items {
		k := it.min + rnd.IntN(2)
		if it.max >= 0 && k > it.max {
			k = it.max
		}
		for j := 0; j < k; j++ {
			for {
				c := (vf01Alphabet + "09")[rnd.IntN(len(vf01Alphabet)+2)]
				if it.accepts(c) {
					sb.WriteByte(c)
					break
				}
			}
		}
	}
	if rnd.IntN(2) == 0 {
		sb.WriteString(vf01RandStr(rnd, 2))
	}
	return sb.String()
}

// networks and addresses live in the 128-bit space (IPv4 = ::ffff:a.b.c.d)
type vf01Net struct {
	text string
	base [16]byte
	plen int  // prefix length in the 128-bit space
	isV4 bool // an IPv4 network (IPv4 notation, or IPv6 notation inside ::ffff:0:0/96)
}

type vf01Addr struct {
	b    [16]byte
	isV4 bool
	form int // 4 or 16 bytes handed to the code
}

func vf01IsMapped(b [16]byte) bool {
	for i := 0; i < 10; i++ {
		if b[i] != 0 {
			return false
		}
	}
	return b[10] == 0xff && b[11] == 0xff
}

func vf01Bit(b [16]byte, i int) byte { return (b[i/8] >> (7 - uint(i%8))) & 1 }

func vf01SetBit(b *[16]byte, i int, v byte) {
	if v == 1 {
		b[i/8] |= 1 << (7 - uint(i%8))
	} else {
		b[i/8] &^= 1 << (7 - uint(i%8))
	}
}

// containment by bit arithmetic: (lo, hi); lo != hi where the statement leaves the answer open
// (an IPv4 client against a genuine IPv6 network whose prefix covers the IPv4-mapped range)
func vf01Contains(n vf01Net, a vf01Addr) (bool, bool) {
	in := true
	for i := 0; i < n.plen; i++ {
		if vf01Bit(n.base, i) != vf01Bit(a.b, i) {
			in = false
			break
		}
	}
	if !n.isV4 && a.isV4 && in {
		return false, true
	}
	return in, in
}

func vf01V4Text(b [16]byte) string { return fmt.Sprintf("%d.%d.%d.%d", b[12], b[13], b[14], b[15]) }

func vf01V6Text(b [16]byte) string {
	p := make([]string, 8)
	for i := 0; i < 8; i++ {
		p[i] = fmt.Sprintf("%x", uint16(b[2*i])<<8|uint16(b[2*i+1]))
	}
	return strings.Join(p, ":")
}

type vf01Gen struct {
	rnd  *rand.Rand
	pool [][16]byte
}

func (g *vf01Gen) randAddr128() [16]byte {
	var b [16]byte
	if len(g.pool) > 0 && g.rnd.IntN(4) != 0 {
		b = g.pool[g.rnd.IntN(len(g.pool))]
		// disturb a few low bits
		for k := g.rnd.IntN(3); k > 0; k-- {
			vf01SetBit(&b, 127-g.rnd.IntN(12), byte(g.rnd.IntN(2)))
		}
		return b
	}
	if g.rnd.IntN(3) != 0 { // IPv4
		b[10], b[11] = 0xff, 0xff
		for i := 12; i < 16; i++ {
			b[i] = byte(g.rnd.IntN(256))
		}
	} else {
		for i := range b {
			b[i] = byte(g.rnd.IntN(256))
		}
		b[0] = 0x20
	}
	return b
}

func (g *vf01Gen) net() vf01Net {
	b := g.randAddr128()
	n := vf01Net{base: b}
	if vf01IsMapped(b) {
		p4 := []int{0, 1, 7, 8, 9, 15, 16, 17, 23, 24, 25, 28, 30, 31, 32}[g.rnd.IntN(15)]
		if g.rnd.IntN(6) == 0 {
			// IPv4 network written in IPv6 notation; prefixes below 96 make it a genuine IPv6 network
			p := []int{0, 80, 90, 95, 96, 97, 104, 120, 128}[g.rnd.IntN(9)]
			n.plen = p
			n.text = fmt.Sprintf("%s/%d", vf01V6Text(b), p)
			n.isV4 = p >= 96
			return n
		}
		n.plen = 96 + p4
		n.isV4 = true
		if p4 == 32 && g.rnd.IntN(2) == 0 {
			n.text = vf01V4Text(b) // bare address
		} else {
			n.text = fmt.Sprintf("%s/%d", vf01V4Text(b), p4)
		}
		return n
	}
	p := []int{0, 1, 7, 8, 9, 31, 32, 33, 47, 48, 63, 64, 65, 96, 112, 127, 128}[g.rnd.IntN(17)]
	n.plen = p
	if p == 128 && g.rnd.IntN(2) == 0 {
		n.text = vf01V6Text(b)
	} else {
		n.text = fmt.Sprintf("%s/%d", vf01V6Text(b), p)
	}
	return n
}

func (g *vf01Gen) addr(nets []vf01Net) vf01Addr {
	var b [16]byte
	if len(nets) > 0 && g.rnd.IntN(10) < 7 {
		n := nets[g.rnd.IntN(len(nets))]
		b = n.base
		for i := n.plen; i < 128; i++ {
			if g.rnd.IntN(4) == 0 {
				vf01SetBit(&b, i, byte(g.rnd.IntN(2)))
			}
		}
		first := 0
		if n.isV4 {
			first = 96
		}
		if n.plen > first && g.rnd.IntN(2) == 0 { // just outside: flip one prefix bit, preferably the last
			i := n.plen - 1
			if g.rnd.IntN(3) == 0 {
				i = first + g.rnd.IntN(n.plen-first)
			}
			vf01SetBit(&b, i, 1-vf01Bit(b, i))
		}
	} else {
		b = g.randAddr128()
	}
	a := vf01Addr{b: b, isV4: vf01IsMapped(b), form: 16}
	if a.isV4 && g.rnd.IntN(2) == 0 {
		a.form = 4
	}
	return a
}

func (a vf01Addr) ip() net.IP {
	if a.form == 4 {
		return net.IP{a.b[12], a.b[13], a.b[14], a.b[15]}
	}
	ip := make(net.IP, 16)
	copy(ip, a.b[:])
	return ip
}

// a configured credential with what is needed to recompute it
type vf01GenCred struct {
	text, enc, clear string
	variant, salt    string
	tcost, mem       uint32
}

func (g *vf01Gen) cred(clear, role string, allowSlow *int) vf01GenCred {
	c := vf01GenCred{clear: clear}
	switch g.rnd.IntN(3) {
	case 0:
		if clear != "" {
			c.enc, c.text = "plain", clear
			return c
		}
		fallthrough
	case 1:
		c.enc, c.text = "sha256", vf01Sha256Text(clear)
	default:
		c.enc = "argon2"
		c.variant = []string{"argon2id", "argon2i"}[g.rnd.IntN(2)]
		c.salt = []string{"saltsalt", "12345678"}[g.rnd.IntN(2)]
		c.tcost, c.mem = 1, 32
		if *allowSlow > 0 && g.rnd.IntN(40) == 0 {
			*allowSlow--
			c.tcost, c.mem = 3, 4096 // the parameters of the repository's own example hashes
		}
		c.text = vf01ArgonText(c.variant, clear, c.salt, c.tcost, c.mem)
	}
	_ = role
	return c
}

// independent decision: does the supplied text match the configured credential?
func (c vf01GenCred) matches(guess string) bool {
	switch c.enc {
	case "plain":
		return c.clear == guess
	case "sha256":
		return vf01Sha256Text(guess) == c.text
	case "argon2":
		return bytes.Equal(vf01ArgonRaw(c.variant, guess, c.salt, c.tcost, c.mem),
			vf01ArgonRaw(c.variant, c.clear, c.salt, c.tcost, c.mem))
	}
	return true // empty configured password
}

type vf01GenPerm struct {
	action, path string
	kind         string
	re           *vf01Re
}

type vf01GenEntry struct {
	nets  []vf01Net
	perms []vf01GenPerm
	any   bool
	user  vf01GenCred
	pass  vf01GenCred // enc "" = empty
}

var vf01Actions = []string{"publish", "read", "playback", "api", "metrics", "pprof"}

func vf01PathAction(a string) bool { return a == "publish" || a == "read" || a == "playback" }

func (g *vf01Gen) entry(action string, names, passes []string, slow *int) vf01GenEntry {
	var e vf01GenEntry
	for k := []int{0, 0, 1, 1, 1, 2, 3}[g.rnd.IntN(7)]; k > 0; k-- {
		e.nets = append(e.nets, g.net())
	}
	for k := []int{0, 1, 1, 2, 2, 3}[g.rnd.IntN(6)]; k > 0; k-- {
		p := vf01GenPerm{action: vf01Actions[g.rnd.IntN(6)]}
		if g.rnd.IntN(3) != 0 {
			p.action = action
		}
		switch g.rnd.IntN(5) {
		case 0:
			p.kind = "empty"
		case 1, 2:
			p.kind = "lit"
			p.path = vf01RandStr(g.rnd, 4)
			if p.path == "" {
				p.kind = "empty"
			}
		default:
			p.kind = "re"
			p.re = vf01GenRe(g.rnd)
			p.path = "~" + p.re.text
		}
		e.perms = append(e.perms, p)
	}
	if g.rnd.IntN(5) == 0 {
		e.any = true
		e.user = vf01GenCred{enc: "plain", text: "any", clear: "any"}
	} else {
		e.user = g.cred(names[g.rnd.IntN(len(names))], "user", slow)
		e.any = e.user.text == "any"
	}
	if g.rnd.IntN(4) != 0 {
		e.pass = g.cred(passes[g.rnd.IntN(len(passes))], "pass", slow)
	}
	return e
}

func (e vf01GenEntry) js() vf01JSUser {
	u := vf01JSUser{User: e.user.text, Pass: e.pass.text, IPs: []string{}, Permissions: []vf01JSPerm{}}
	for _, n := range e.nets {
		u.IPs = append(u.IPs, n.text)
	}
	for _, p := range e.perms {
		u.Permissions = append(u.Permissions, vf01JSPerm{Action: p.action, Path: p.path})
	}
	return u
}

type vf01GenReq struct {
	action, path, user, pass, token string
	addr                            vf01Addr
	ask                             bool
	ver                             string // "", "pair", "rej", "all"
	verU, verP                      string
}

func (r vf01GenReq) verifier() func(string, string) bool {
	switch r.ver {
	case "pair":
		return func(eu, ep string) bool { return eu == r.verU && ep == r.verP }
	case "rej":
		return func(string, string) bool { return false }
	case "all":
		return func(string, string) bool { return true }
	}
	return nil
}

// atoms of one entry for one request, computed without the code under test
func vf01Atoms(t testing.TB, e vf01GenEntry, r vf01GenReq) map[string]any {
	lo, hi := false, false
	for _, n := range e.nets {
		l, h := vf01Contains(n, r.addr)
		lo = lo || l
		hi = hi || h
	}
	perms := []map[string]any{}
	for _, p := range e.perms {
		found := false
		if p.kind == "re" {
			found = p.re.found(r.path)
			// cross-check of the harness's matcher (a harness problem, not a verdict)
			cre, err := regexp.Compile(p.re.text)
			if (err != nil) != p.re.invalid || (err == nil && (cre.FindStringIndex(r.path) != nil) != found) {
				t.Fatalf("vf01: harness matcher disagrees with package regexp on %q / %q", p.re.text, r.path)
			}
		}
		perms = append(perms, map[string]any{"actEq": p.action == r.action, "kind": p.kind,
			"eq": p.path == r.path, "found": found})
	}
	vm := false
	if v := r.verifier(); v != nil {
		vm = v(e.user.text, e.pass.text)
	}
	return map[string]any{"ipEmpty": len(e.nets) == 0, "ipLo": lo, "ipHi": hi, "perms": perms,
		"any": e.any, "um": e.user.matches(r.user), "pm": e.pass.matches(r.pass), "vm": vm}
}

func (g *vf01Gen) scenario(slow *int) ([]vf01GenEntry, func(es []vf01GenEntry) vf01GenReq) {
	names := []string{"alice", "bob", "carol", "any"}
	passes := []string{"pw", "secret", "p4ss"}
	g.pool = g.pool[:0]
	for k := 2 + g.rnd.IntN(3); k > 0; k-- {
		g.pool = append(g.pool, g.randAddr128())
	}
	action := vf01Actions[[]int{0, 1, 1, 1, 2, 3, 4, 5}[g.rnd.IntN(8)]]
	var es []vf01GenEntry
	for k := []int{0, 1, 1, 2, 2, 3, 4}[g.rnd.IntN(7)]; k > 0; k-- {
		es = append(es, g.entry(action, names, passes, slow))
	}
	mkReq := func(es []vf01GenEntry) vf01GenReq {
		r := vf01GenReq{action: action, ask: g.rnd.IntN(2) == 0}
		if g.rnd.IntN(6) == 0 {
			r.action = vf01Actions[g.rnd.IntN(6)]
		}
		var nets []vf01Net
		var perms []vf01GenPerm
		for _, e := range es {
			nets = append(nets, e.nets...)
			perms = append(perms, e.perms...)
		}
		r.addr = g.addr(nets)
		r.path = vf01RandStr(g.rnd, 5)
		if len(perms) > 0 && g.rnd.IntN(4) != 0 {
			p := perms[g.rnd.IntN(len(perms))]
			switch {
			case p.kind == "re" && !p.re.invalid && g.rnd.IntN(8) != 0:
				r.path = p.re.sample(g.rnd)
			case p.kind == "re" || g.rnd.IntN(2) == 0:
				r.path = p.path // equal text (for a '~' path: the open point)
			default:
				r.path = p.path + vf01RandStr(g.rnd, 1)
			}
		}
		if vf01PathAction(r.action) == false && g.rnd.IntN(2) == 0 {
			r.path = ""
		}
		pick := func(pool []string, of func(e vf01GenEntry) string) string {
			switch g.rnd.IntN(8) {
			case 0:
				return ""
			case 1:
				return "bad"
			case 2, 3:
				return pool[g.rnd.IntN(len(pool))]
			}
			if len(es) > 0 {
				return of(es[g.rnd.IntN(len(es))])
			}
			return pool[g.rnd.IntN(len(pool))]
		}
		r.user = pick(names, func(e vf01GenEntry) string { return e.user.clear })
		r.pass = pick(passes, func(e vf01GenEntry) string { return e.pass.clear })
		if g.rnd.IntN(5) == 0 {
			r.token = "tok"
		}
		if g.rnd.IntN(6) == 0 {
			r.ver = []string{"pair", "pair", "rej", "all"}[g.rnd.IntN(4)]
			if r.ver == "pair" && len(es) > 0 {
				e := es[g.rnd.IntN(len(es))]
				r.verU, r.verP = e.user.text, e.pass.text
				if g.rnd.IntN(5) == 0 {
					r.verU, r.verP = r.verP, r.verU
				}
			}
		}
		return r
	}
	return es, mkReq
}

func vf01Request(r vf01GenReq) *Request {
	return &Request{
		Action:               conf.AuthAction(r.action),
		Path:                 r.path,
		Protocol:             ProtocolRTSP,
		Credentials:          &Credentials{User: r.user, Pass: r.pass, Token: r.token},
		IP:                   r.addr.ip(),
		CustomVerifyFunc:     r.verifier(),
		EnableAskCredentials: r.ask,
	}
}

func vf01Record(t testing.TB, kind string, run int, es, esB []vf01GenEntry, r vf01GenReq, user string, aerr *Error) map[string]any {
	atoms := func(es []vf01GenEntry) ([]map[string]any, []vf01JSUser) {
		a := []map[string]any{}
		js := []vf01JSUser{}
		for _, e := range es {
			a = append(a, vf01Atoms(t, e, r))
			js = append(js, e.js())
		}
		return a, js
	}
	ua, ujs := atoms(es)
	rec := map[string]any{
		"kind": kind, "run": run, "users": ua,
		"req": map[string]any{"pathAct": vf01PathAction(r.action), "user": r.user, "pass": r.pass,
			"token": r.token, "ask": r.ask, "ver": r.ver != ""},
		"obs": map[string]any{"ok": aerr == nil, "user": user, "ask": aerr != nil && aerr.AskCredentials},
		"desc": map[string]any{"users": ujs, "action": r.action, "path": r.path, "ip": r.addr.ip().String(),
			"ipBytes": r.addr.form, "verifier": r.ver, "verifierAccepts": []string{r.verU, r.verP}},
	}
	if kind == "reload" {
		ub, bjs := atoms(esB)
		rec["usersB"] = ub
		rec["desc"].(map[string]any)["usersB"] = bjs
	}
	return rec
}

// impl -> spec: random configurations and requests; atoms are logged next to the real answer.
func TestVerif_C01_Trace(t *testing.T) {
	out := verifrt.NewOutFile(t, verifrt.ParamS("TRACEOUT", os.Getenv("VERIF_OUT")))
	defer out.Close()
	g := &vf01Gen{rnd: verifrt.Rand(1)}
	runs := verifrt.Param("RUNS", 300)
	perRun := verifrt.Param("REQS", 12)
	reloadRuns := verifrt.Param("RELOADRUNS", 20)
	slow := verifrt.Param("SLOWHASHES", 6)

	for run := 0; run < runs; run++ {
		es, mkReq := g.scenario(&slow)
		js := make([]vf01JSUser, len(es))
		for i, e := range es {
			js[i] = e.js()
		}
		m := &Manager{Method: conf.AuthMethodInternal, InternalUsers: vf01Load(t, js)}
		for k := 0; k < perRun; k++ {
			r := mkReq(es)
			user, aerr := m.Authenticate(vf01Request(r))
			out.Emit(vf01Record(t, "call", run, es, nil, r, user, aerr))
		}
	}

	// the user list is swapped (ReloadInternalUsers) while requests are being decided
	for run := 0; run < reloadRuns; run++ {
		esA, mkReq := g.scenario(&slow)
		esB, _ := g.scenario(&slow)
		if run%2 == 1 && len(esA) > 0 {
			// the new list is a permutation / a one-entry edit of the old one (same capacity)
			esB = append([]vf01GenEntry{}, esA...)
			g.rnd.Shuffle(len(esB), func(i, j int) { esB[i], esB[j] = esB[j], esB[i] })
			switch g.rnd.IntN(3) {
			case 0:
				esB = esB[:len(esB)-1]
			case 1:
				extra, _ := g.scenario(&slow)
				if len(extra) > 0 {
					esB[g.rnd.IntN(len(esB))] = extra[0]
				}
			}
		}
		load := func(es []vf01GenEntry) []conf.AuthInternalUser {
			js := make([]vf01JSUser, len(es))
			for i, e := range es {
				js[i] = e.js()
			}
			return vf01Load(t, js)
		}
		la, lb := load(esA), load(esB)
		m := &Manager{Method: conf.AuthMethodInternal, InternalUsers: la}
		var stop atomic.Bool
		var wg sync.WaitGroup
		wg.Add(1)
		go func() {
			defer wg.Done()
			for i := 0; !stop.Load(); i++ {
				if i%2 == 0 {
					m.ReloadInternalUsers(lb)
				} else {
					m.ReloadInternalUsers(la)
				}
			}
		}()
		for k := 0; k < perRun; k++ {
			es := esA
			if k%2 == 1 {
				es = esB
			}
			r := mkReq(es)
			for rep := 0; rep < 3; rep++ {
				user, aerr := m.Authenticate(vf01Request(r))
				out.Emit(vf01Record(t, "reload", runs+run, esA, esB, r, user, aerr))
			}
		}
		stop.Store(true)
		wg.Wait()
	}
}
